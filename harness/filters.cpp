// filters.cpp -- C12: MixinFilter / MixinHeterFilter gate every dispatch (direct or queued); canContinueInvoking stops the
// listener chain; conditionalFunctor and argumentAdapter wrap listeners.
//
// TK: 0 EventDispatcher+MixinFilter      1 EventQueue+MixinFilter (direct or queued dispatch)
//     2 HeterEventDispatcher+MixinHeterFilter
//     3 EventDispatcher with MixinList<MixinGate, MixinFilter>   (a user mixin with its own mixinBeforeDispatch first)
//     7 EventDispatcher with MixinList<MixinPlain, MixinFilter>  (a user mixin WITHOUT mixinBeforeDispatch first)
//     8 EventDispatcher with MixinList<MixinFilter, MixinPlain>
//     4 CallbackList with a canContinueInvoking policy     5 conditionalFunctor     6 argumentAdapter
#include "common.h"

#ifndef TK
#define TK 0
#endif
#ifndef KK
#define KK 4
#endif
#define EV 2
#ifndef PRE
#define PRE 0
#endif
#define MAXF (KK + 2 + PRE)

struct TrE { int kind; uint32_t id; uint32_t val; };      // kind 0 filter, 1 listener, 2 gate
static TrE g_tr[64]; static int g_trn;
static void rec(int kind, uint32_t id, uint32_t val) { if(g_trn < 64) { g_tr[g_trn].kind = kind; g_tr[g_trn].id = id; g_tr[g_trn].val = val; } g_trn++; }

enum { COV_FILTER_BLOCKS = 0, COV_FILTER_REWRITES, COV_REMOVED_FILTER, COV_QUEUED, COV_TWO_FILTERS_PASS, COV_POLICY_STOPS, COV_COND_FALSE, COV_GATE_CLOSED, COV_NO_LISTENER_EVENT, COV_N };

#if TK <= 3 || TK == 7 || TK == 8
// ---------------------------------------------------------------------------------------------- filters
static uint32_t g_gate_verdict;
template <typename Base> struct MixinGate : public Base {
	template <typename ...A> bool mixinBeforeDispatch(A && ...args) const { rec(2, 0, 0); return (g_gate_verdict & 1u) != 0; }
};
template <typename Base> struct MixinPlain : public Base { int plainMember = 0; };

#if TK == 3
struct Pol { using Threading = VMutexOnlyThreading; using Mixins = eventpp::MixinList<MixinGate, eventpp::MixinFilter>; };
#elif TK == 7
struct Pol { using Threading = VMutexOnlyThreading; using Mixins = eventpp::MixinList<MixinPlain, eventpp::MixinFilter>; };
#elif TK == 8
struct Pol { using Threading = VMutexOnlyThreading; using Mixins = eventpp::MixinList<eventpp::MixinFilter, MixinPlain>; };
#elif TK == 2
struct Pol { using Threading = VMutexOnlyThreading; using Mixins = eventpp::MixinList<eventpp::MixinHeterFilter>; };
#else
struct Pol { using Threading = VMutexOnlyThreading; using Mixins = eventpp::MixinList<eventpp::MixinFilter>; };
#endif
#if TK == 1
using T = eventpp::EventQueue<int, void(uint32_t, uint32_t), Pol>;
#elif TK == 2
using T = eventpp::HeterEventDispatcher<int, eventpp::HeterTuple<void(uint32_t, uint32_t), void()>, Pol>;
#else
using T = eventpp::EventDispatcher<int, void(uint32_t, uint32_t), Pol>;
#endif

struct Model { uint32_t fid[MAXF]; bool flive[MAXF]; int nf; uint32_t lid[MAXF]; int nl; };
struct G { T * t; Model m; T::FilterHandle fh[MAXF]; uint32_t verdict[MAXF]; uint32_t delta[MAXF]; uint32_t fcalls[MAXF]; int killer, victim; bool killDone; };
static G * g;

extern "C" void harness()
{
	g = new G(); g->t = new T(); Model & m = g->m; g->killer = -1; g->victim = -1;
	g->t->appendListener(EV, [](uint32_t a, uint32_t b) { rec(1, 500, a); (void)b; }); m.lid[m.nl++] = 500;
#ifndef PRE
#define PRE 0
#endif
	for(int step = -(PRE); step < KK; step++) {
		unsigned op = step < 0 ? 0u : vf_choose(5);       // PRE filters are installed before the free steps start
		if(op == 0) {                                      // append a filter: symbolic verdict and rewrite per call
			if(m.nf < MAXF) {
				int i = m.nf;
				// the filter keeps state of its own (a call counter captured by value): every run must be made on the ONE stored filter object;
				// and a filter may remove a LATER filter while the filters are running (killer / victim, drawn per dispatch)
				g->fh[i] = g->t->appendFilter([i, mine = 0u](uint32_t & a, uint32_t & b) mutable -> bool {
					rec(0, (uint32_t)i, a);
					mine++; g->fcalls[i]++; vf_assert(mine == g->fcalls[i], 258);
					if(g->killer == i && ! g->killDone) { g->killDone = true; bool r = g->t->removeFilter(g->fh[g->victim]); vf_assert(r, 259); }
					a = a + g->delta[i]; b = b ^ 1u;
					return (g->verdict[i] & 1u) != 0;
				});
				m.fid[i] = (uint32_t)i; m.flive[i] = true; m.nf++;
			}
		}
		else if(op == 1) {                                 // remove a filter through its handle (live or already removed)
			if(m.nf > 0) {
				int i = (int)vf_choose((unsigned)m.nf);
				bool r = g->t->removeFilter(g->fh[i]);
				vf_assert(r == m.flive[i], 260);
				if(r) vf_cover(COV_REMOVED_FILTER);
				m.flive[i] = false;
			}
		}
		else if(op == 2) {
			uint32_t id = 501u + (uint32_t)m.nl;
			if(m.nl < MAXF) { g->t->appendListener(EV, [id](uint32_t a, uint32_t) { rec(1, id, a); }); m.lid[m.nl++] = id; }
		}
		else if(op == 4) {                                 // dispatch of an event NOBODY listens to: the filters run all the same
			uint32_t a = vf_nondet_u32(), b = vf_nondet_u32();
			for(int i = 0; i < m.nf; i++) { g->verdict[i] = vf_nondet_u32(); g->delta[i] = 0; }
			g_gate_verdict = 1; g_trn = 0; g->killer = -1; g->victim = -1;
#if TK == 1
			if(vf_choose(2)) { g->t->enqueue(EV + 1, a, b); g->t->process(); } else g->t->dispatch(EV + 1, a, b);
#else
			g->t->dispatch(EV + 1, a, b);
#endif
			int k = 0; bool open = true;
#if TK == 3
			k = 1;
#endif
			for(int i = 0; i < m.nf && open; i++) { if(! m.flive[i]) continue; vf_assert(k < g_trn && g_tr[k].kind == 0 && g_tr[k].id == m.fid[i], 268); k++; if((g->verdict[i] & 1u) == 0) open = false; }
			vf_assert(g_trn == k, 269);
			if(k > 0) vf_cover(COV_NO_LISTENER_EVENT);
		}
		else {                                             // dispatch: direct or (TK 1) queued
			uint32_t a = vf_nondet_u32(), b = vf_nondet_u32();
			for(int i = 0; i < m.nf; i++) { g->verdict[i] = vf_nondet_u32(); g->delta[i] = vf_nondet_u32(); }
			g_gate_verdict = vf_nondet_u32();
			const uint32_t a0 = a;      // heterogeneous dispatch forwards lvalues: filters may rewrite the caller's own variable
			// optionally one live filter removes the next live filter when its turn comes in THIS dispatch
			g->killer = -1; g->victim = -1; g->killDone = false;
			if(m.nf >= 2) {
				int kk = (int)vf_choose((unsigned)m.nf + 1) - 1;
				if(kk >= 0 && m.flive[kk]) { int v = -1; for(int j = kk + 1; j < m.nf && v < 0; j++) if(m.flive[j]) v = j; if(v >= 0) { g->killer = kk; g->victim = v; } }
			}
			g_trn = 0;
#if TK == 1
			switch(vf_choose(4)) {
			case 0: g->t->dispatch(EV, a, b); break;
			case 1: g->t->enqueue(EV, a, b); vf_assert(g_trn == 0, 261); g->t->process(); vf_cover(COV_QUEUED); break;
			case 2: g->t->enqueue(EV, a, b); vf_assert(g_trn == 0, 261); g->t->processOne(); vf_cover(COV_QUEUED); break;
			default: {                                     // taken out of the queue and dispatched by hand: a dispatch like any other
				g->t->enqueue(EV, a, b); T::QueuedEvent qe; bool got = g->t->takeEvent(&qe); vf_assert(got && g_trn == 0, 261);
				g->t->dispatch(qe); vf_cover(COV_QUEUED); break; }
			}
#else
			g->t->dispatch(EV, a, b);
#endif
			// ---- oracle
			int k = 0; bool open = true; uint32_t cur = a0; int passed = 0;
#if TK == 3
			vf_assert(g_trn >= 1 && g_tr[0].kind == 2, 262); k = 1;            // the first mixin in the list runs first
			if((g_gate_verdict & 1u) == 0) { open = false; vf_cover(COV_GATE_CLOSED); }
#endif
			for(int i = 0; i < m.nf && open; i++) {
				if(! m.flive[i]) continue;                                         // removed filters never run again
				vf_assert(k < g_trn && g_tr[k].kind == 0 && g_tr[k].id == m.fid[i], 263);   // insertion order
				if(k < g_trn) vf_assert(g_tr[k].val == cur, 264);                   // sees the modifications of earlier filters (lvalue)
				k++;
				if(i == g->killer) { m.flive[g->victim] = false; vf_assert(g->killDone, 257); }   // it removed a later filter: that one does not run any more, not even in this dispatch
				if(g->delta[i] != 0) vf_cover(COV_FILTER_REWRITES);
				cur = cur + g->delta[i];
				if((g->verdict[i] & 1u) == 0) { open = false; vf_cover(COV_FILTER_BLOCKS); } else passed++;
			}
			if(passed >= 2 && open) vf_cover(COV_TWO_FILTERS_PASS);
			if(open) for(int j = 0; j < m.nl; j++) {
				vf_assert(k < g_trn && g_tr[k].kind == 1 && g_tr[k].id == m.lid[j], 265);
				if(k < g_trn) vf_assert(g_tr[k].val == cur, 266);                   // listeners see the rewritten value
				k++;
			}
			vf_assert(g_trn == k, 267);                                              // nothing else ran: first false stops the rest of THIS dispatch only
			vf_obs(1, (uint64_t)k);
		}
	}
	for(int i = 0; i < MAXF; i++) g->fh[i] = T::FilterHandle();
	delete g->t; delete g; g = nullptr;
	vf_end();
}

#elif TK == 4
// ---------------------------------------------------------------------------------------------- canContinueInvoking
static uint32_t g_threshold;
struct Pol { using Threading = VMutexOnlyThreading; static bool canContinueInvoking(uint32_t & a) { return a < g_threshold; } };
using CL = eventpp::CallbackList<void(uint32_t &), Pol>;
extern "C" void harness()
{
	CL * cl = new CL();
	static uint32_t inc[4]; int n = 2 + (int)vf_choose(3);
	for(int i = 0; i < n; i++) { inc[i] = vf_nondet_u32(); cl->append([i](uint32_t & a) { rec(1, (uint32_t)i, a); a += inc[i]; }); }
	g_threshold = vf_nondet_u32();
	uint32_t a0 = vf_nondet_u32(); uint32_t a = a0;
	g_trn = 0;
	(*cl)(a);
	// listeners in order until the policy returns false for the current arguments
	uint32_t cur = a0; int k = 0; bool go = true;
	for(int i = 0; i < n && go; i++) {
		vf_assert(k < g_trn && g_tr[k].id == (uint32_t)i && g_tr[k].val == cur, 270); k++;
		cur += inc[i];
		if(!(cur < g_threshold)) { go = false; if(i + 1 < n) vf_cover(COV_POLICY_STOPS); }
	}
	vf_assert(g_trn == k, 271);
	vf_assert(a == cur, 272);
	vf_obs(1, (uint64_t)k);
	delete cl;
	vf_end();
}

#elif TK == 5
// ---------------------------------------------------------------------------------------------- conditionalFunctor
struct Pol { using Threading = VMutexOnlyThreading; };
extern "C" void harness()
{
	using D = eventpp::EventDispatcher<int, void(uint32_t, uint32_t), Pol>;
	D * d = new D();
	static uint32_t mask, want; mask = vf_nondet_u32(); want = vf_nondet_u32();
	d->appendListener(EV, eventpp::conditionalFunctor([](uint32_t a, uint32_t b) { rec(1, 1, a ^ b); }, [](uint32_t a, uint32_t) { rec(0, 0, a); return (a & mask) == want; }));
	d->appendListener(EV, [](uint32_t a, uint32_t) { rec(1, 2, a); });
	// a condition whose result is not a bool but a mask / count: it "holds" when the result is non-zero (contextual conversion), not when it equals 1
	d->appendListener(EV, eventpp::conditionalFunctor([](uint32_t a, uint32_t b) { rec(1, 3, a + b); }, [](uint32_t a, uint32_t) -> uint32_t { rec(0, 9, a); return a & mask; }));
	// a condition callable BOTH with the dispatched arguments and with none (an overloaded functor, e.g. one that is also used as a processIf
	// predicate): the listener runs exactly when the condition holds FOR THE DISPATCHED ARGUMENTS, so the argument form is the one that counts
	struct BothWays {
		bool operator()(uint32_t a, uint32_t) const { rec(0, 8, a); return (a & mask) != want; }
		bool operator()() const { rec(0, 7, 0); return true; }
	};
	d->appendListener(EV, eventpp::conditionalFunctor([](uint32_t a, uint32_t b) { rec(1, 4, a - b); }, BothWays()));
	// listener and condition given as NAMED objects (lvalues): the wrapper holds its own copies, so what the caller does to its objects afterwards
	// (re-using the condition object with another threshold, letting it go out of scope) does not change when the registered listener runs
	struct Thresh { uint32_t t; bool operator()(uint32_t a, uint32_t) const { rec(0, 6, a); return a > t; } };
	Thresh th{want};
	auto namedListener = [](uint32_t a, uint32_t b) { rec(1, 5, a | b); };
	d->appendListener(EV, eventpp::conditionalFunctor(namedListener, th));
	th.t = ~want;
	for(int i = 0; i < 2; i++) {
		uint32_t a = vf_nondet_u32(), b = vf_nondet_u32();
		g_trn = 0;
		d->dispatch(EV, a, b);
		{	// the named-object listener is the last one
			int e = g_trn;
			if(a > want) { vf_assert(e >= 2 && g_tr[e - 1].kind == 1 && g_tr[e - 1].id == 5 && g_tr[e - 1].val == (a | b), 290); e--; }
			vf_assert(e >= 1 && g_tr[e - 1].kind == 0 && g_tr[e - 1].id == 6 && g_tr[e - 1].val == a, 291); e--;
			g_trn = e;
		}
		// the both-ways listener is the one before it: check and strip its records first
		{
			int e = g_trn;
			if((a & mask) != want) { vf_assert(e >= 2 && g_tr[e - 1].kind == 1 && g_tr[e - 1].id == 4 && g_tr[e - 1].val == a - b, 284); e--; }
			vf_assert(e >= 1 && g_tr[e - 1].kind == 0 && g_tr[e - 1].id == 8 && g_tr[e - 1].val == a, 285); e--;
			g_trn = e;
		}
		bool holds = (a & mask) == want;
		int k = 0;
		vf_assert(g_trn >= 1 && g_tr[0].kind == 0 && g_tr[0].val == a, 275); k = 1;         // condition evaluated on the dispatched arguments
		if(holds) { vf_assert(k < g_trn && g_tr[k].id == 1 && g_tr[k].val == (a ^ b), 276); k++; } else vf_cover(COV_COND_FALSE);
		vf_assert(k < g_trn && g_tr[k].id == 2 && g_tr[k].val == a, 277); k++;
		vf_assert(k < g_trn && g_tr[k].kind == 0 && g_tr[k].id == 9 && g_tr[k].val == a, 279); k++;
		if((a & mask) != 0) { vf_assert(k < g_trn && g_tr[k].id == 3 && g_tr[k].val == a + b, 279); k++; }
		vf_assert(g_trn == k, 278);
	}
	delete d;
	vf_end();
}

#else
// ---------------------------------------------------------------------------------------------- argumentAdapter
struct Pol { using Threading = VMutexOnlyThreading; };
struct Base { uint32_t tagBase; virtual ~Base() {} };
struct Pad { uint32_t padding; virtual ~Pad() {} };
struct Derived : public Pad, public Base { uint32_t tagDerived; };       // Base is NOT at offset 0: the cast must adjust the pointer
struct Movable {      // a value whose move constructor empties the source (like std::string), recognisably
	uint32_t v; bool movedFrom;
	explicit Movable(uint32_t x) : v(x), movedFrom(false) {}
	Movable(const Movable & o) : v(o.v), movedFrom(o.movedFrom) {}
	Movable(Movable && o) : v(o.v), movedFrom(o.movedFrom) { o.v = 0xdeadu; o.movedFrom = true; }
	Movable & operator=(const Movable &) = default;
};
extern "C" void harness()
{
	// with ADAPT defined: one conversion kind per translation unit (a change that makes one kind ill-formed must not hide the others)
#ifdef ADAPT
#define ADAPT_HAS(k) (ADAPT == (k))
	unsigned which = ADAPT;
#else
#define ADAPT_HAS(k) 1
	unsigned which = vf_choose(4);
#endif
#if ADAPT_HAS(3)
	if(which == 3) {
		// prototype passes a movable class by non-const lvalue reference; adapter-wrapped listeners take it BY VALUE: each receives the same value
		// (a copy), the object itself is not consumed: later listeners and the caller still see it
		using D = eventpp::EventDispatcher<int, void(uint32_t, Movable &), Pol>;
		D * d = new D();
		d->appendListener(EV, eventpp::argumentAdapter<void(uint32_t, Movable)>([](uint32_t, Movable m) { rec(1, 1, m.v); rec(1, 11, m.movedFrom ? 1u : 0u); }));
		d->appendListener(EV, eventpp::argumentAdapter<void(uint32_t, Movable)>([](uint32_t, Movable m) { rec(1, 2, m.v); rec(1, 12, m.movedFrom ? 1u : 0u); }));
		d->appendListener(EV, [](uint32_t, Movable & m) { rec(1, 3, m.v); rec(1, 13, m.movedFrom ? 1u : 0u); });
		Movable obj(vf_nondet_u32());
		const uint32_t v = obj.v;
		g_trn = 0; d->dispatch(EV, 5u, obj);
		vf_assert(g_trn == 6, 286);
		for(int i = 0; i < 3 && 2 * i + 1 < g_trn; i++) { vf_assert(g_tr[2 * i].val == v, 287); vf_assert(g_tr[2 * i + 1].val == 0u, 288); }
		vf_assert(obj.v == v && ! obj.movedFrom, 289);
		delete d;
	}
#endif
#if ADAPT_HAS(0)
	if(which == 0) {
		using D = eventpp::EventDispatcher<int, void(int64_t, uint32_t), Pol>;
		D * d = new D();
		d->appendListener(EV, eventpp::argumentAdapter<void(int32_t, uint16_t)>([](int32_t a, uint16_t b) { rec(1, 1, (uint32_t)a); rec(1, 2, (uint32_t)b); }));
		int64_t a = (int64_t)vf_nondet_u64(); uint32_t b = vf_nondet_u32();
		g_trn = 0; d->dispatch(EV, a, b);
		vf_assert(g_trn == 2 && g_tr[0].val == (uint32_t)(int32_t)a && g_tr[1].val == (uint32_t)(uint16_t)b, 280);   // the same values converted to the listener's types
		delete d;
	}
#endif
#if ADAPT_HAS(1)
	if(which == 1) {
		using D = eventpp::EventDispatcher<int, void(Base *), Pol>;
		D * d = new D();
		Derived obj; obj.tagBase = vf_nondet_u32(); obj.tagDerived = vf_nondet_u32(); obj.padding = 7;
		static Derived * seen; seen = nullptr;
		d->appendListener(EV, eventpp::argumentAdapter<void(Derived *)>([](Derived * p) { seen = p; rec(1, 1, p->tagDerived); }));
		g_trn = 0; d->dispatch(EV, static_cast<Base *>(&obj));
		vf_assert(g_trn == 1 && seen == &obj && g_tr[0].val == obj.tagDerived, 281);
		delete d;
	}
#endif
#if ADAPT_HAS(2)
	if(which == 2) {
		using D = eventpp::EventDispatcher<int, void(std::shared_ptr<Base>), Pol>;
		D * d = new D();
		auto sp = std::make_shared<Derived>(); sp->tagDerived = vf_nondet_u32();
		static uint32_t seenTag; static long seenCount;
		d->appendListener(EV, eventpp::argumentAdapter<void(std::shared_ptr<Derived>)>([](std::shared_ptr<Derived> p) { seenTag = p->tagDerived; seenCount = p.use_count(); rec(1, 1, 0); }));
		g_trn = 0; d->dispatch(EV, std::shared_ptr<Base>(sp));
		vf_assert(g_trn == 1 && seenTag == sp->tagDerived && seenCount >= 2, 282);
		vf_assert(sp.use_count() == 1, 283);
		delete d;
	}
#endif
	vf_end();
}
#endif
