// vf.h -- the tiny API between a harness and whoever runs it.
// Engine (engine/symx.py): these are externals interpreted symbolically.
// Native replay (runtime/vf_native.cpp): they read a replay file.
#ifndef VF_H
#define VF_H
#include <stdint.h>
#include <stddef.h>

extern "C" {
// structural choice 0..n-1 (engine: fork n ways; replay: read)
unsigned vf_choose(unsigned n);
// symbolic data (engine: fresh bit-vector; replay: model value)
uint32_t vf_nondet_u32(void);
uint64_t vf_nondet_u64(void);
// bytes of [p,p+n) become fresh symbolic bytes (replay: model bytes)
void vf_havoc(void * p, size_t n);
void vf_assume(bool c);
// property assertion; id identifies the assertion inside the harness
void vf_assert(bool c, int id);
// harness-side invariant / precondition (e.g. the representation invariant of an inductive step): when it can fail the run cannot decide the
// property on this tree -> reported as INCONCLUSIVE (exit 2), never as a VIOLATION
void vf_require(bool c, int id);
// reachability goal (vacuity guard); every goal < the declared count must be hit by some path
void vf_cover(int goal);
// observation for engine/native trace comparison (translation validation of witnesses)
void vf_obs(int tag, uint64_t value);
// end of path: engine checks that no heap object is still alive (leak)
void vf_end(void);
// fault point: "does this fault point fire?" (engine forks; bounded faults per path)
bool vf_fault(int kind);
// threads (engine: explicit-state scheduler; native: ucontext coroutines following the replay schedule)
int vf_spawn(void (*fn)(void *), void * arg);
// returns 0 when every spawned thread finished, 1 when the remaining threads are blocked forever (deadlock):
// the harness decides whether that terminal state is a violation
int vf_join_all(void);
void vf_yield(int tag);
// instrumented threading policy hooks (all scheduling points)
void vf_mutex_lock(const void * m);
void vf_mutex_unlock(const void * m);
void vf_cv_wait(const void * cv, const void * m);
// returns true when woken by notify, false when the engine/replay decides "timeout fires now"
bool vf_cv_wait_for(const void * cv, const void * m);
void vf_cv_notify_one(const void * cv);
void vf_cv_notify_all(const void * cv);
void vf_atomic_point(const void * a);
// hook marker from /repo (guard EVENTPP_VERIF)
void eventpp_verif_point(int tag);
// current thread index (0 = main)
int vf_self(void);
}

#endif
