// cl_inductive.cpp -- C01, inductive step. Extends the bounded-history verdict of cl_history.cpp to histories of ANY length whose
// lists never exceed NMAX live callbacks, relative to the representation invariant INV below:
//
//   base : the freshly constructed list satisfies INV (checked here for n = 0)
//   step : from EVERY state that satisfies INV with n <= NMAX nodes -- the shape of such a state is unique (a chain of n nodes), what
//          varies is data: every node's generation counter, the list's current counter and every callback id are SYMBOLIC, constrained
//          only by INV -- ONE arbitrary operation behaves as the reference model says and re-establishes INV.
//
// INV: head/tail/next/previous form one consistent chain holding exactly the model's callbacks in order; no removed node is reachable;
//      1 <= node.counter <= currentCounter for every node; every node is owned only by its neighbours/head/tail (use counts).
// A counterexample from a pre-state no real history reaches would mean INV is too weak; it is not a finding.
#include "common.h"

#ifndef NMAX
#define NMAX 4
#endif
#define MAXN (NMAX + 2)

static Trace g_tr;
struct Cb {
	uint32_t id;
	explicit Cb(uint32_t i) : id(i) {}
	void operator()(uint32_t a, uint32_t b) const { g_tr.add(id, a, b); }
	bool operator==(const Cb & o) const { return id == o.id; }
};
struct Pol { using Threading = VMutexOnlyThreading; using Callback = Cb; };
using CL = eventpp::CallbackList<void(uint32_t, uint32_t), Pol>;

struct Model { uint32_t id[MAXN]; int cnt; };

enum { COV_STEP_FROM_FULL = 0, COV_WRAP_IN_STEP, COV_INSERT_MID, COV_REMOVE_MID, COV_STALE_OPERAND, COV_N };

static void check_inv(CL & l, const Model & m, int aid)
{
	// chain consistency and content
	auto node = l.head; decltype(node) prev; int n = 0;
	const uint32_t cur = l.currentCounter.value;
	while(node && n <= MAXN) {
		vf_assert(node->previous == prev, aid);                         // link symmetry
		vf_assert(node->counter != 0, aid + 1);                          // no removed node reachable
		vf_assert(node->counter <= cur, aid + 2);                        // generation numbers never ahead of the list's counter
		if(n < m.cnt) vf_assert(node->callback.id == m.id[n], aid + 3);  // content and order
		// owners: head or predecessor's next, tail or successor's previous, and our two local copies
		long owners = 1 /*node*/ + (node == l.head ? 1 : 0) + (node == l.tail ? 1 : 0) + (prev ? 1 : 0) + (node->next ? 1 : 0);
		vf_assert(node.use_count() == owners, aid + 4);
		prev = node; node = node->next; n++;
	}
	vf_assert(n == m.cnt, aid + 5);
	vf_assert(l.tail == prev, aid + 6);
	vf_assert((m.cnt == 0) == (! l.head), aid + 7);
}

extern "C" void harness()
{
	g_tr.clear();
	CL * l = new CL(); Model m{};
	CL::Handle hs[MAXN]; CL::Handle stale, empty;
	check_inv(*l, m, 500);                                               // base case
	// ---- an arbitrary INV-state with n nodes
	int n = (int)vf_choose(NMAX + 1);
	{	// a stale handle: refers to a node that was removed earlier in the history
		stale = l->append(Cb(0xdeadu)); l->remove(stale);
	}
	for(int i = 0; i < n; i++) { uint32_t id = vf_nondet_u32(); hs[i] = l->append(Cb(id)); m.id[m.cnt++] = id; }
	{
		uint32_t cur = vf_nondet_u32();
		vf_assume(cur >= 1);
		l->currentCounter.value = cur;
		auto node = l->head;
		while(node) { uint32_t c = vf_nondet_u32(); vf_assume(c >= 1 && c <= cur); node->counter = c; node = node->next; }
		if(cur == 0xffffffffu) vf_cover(COV_WRAP_IN_STEP);
	}
	check_inv(*l, m, 510);
	if(n == NMAX) vf_cover(COV_STEP_FROM_FULL);
	// ---- one arbitrary operation
	unsigned nh = (unsigned)n + 2;                                       // live handles, the stale one, the empty one
	unsigned op = vf_choose(3 + 2 * nh);
	auto handle_of = [&](unsigned k) -> CL::Handle { if(k < (unsigned)n) return hs[k]; vf_cover(COV_STALE_OPERAND); return k == (unsigned)n ? stale : empty; };
	uint32_t nid = vf_nondet_u32();
	if(op == 0) { l->append(Cb(nid)); m.id[m.cnt++] = nid; }
	else if(op == 1) { l->prepend(Cb(nid)); for(int k = m.cnt; k > 0; k--) m.id[k] = m.id[k - 1]; m.id[0] = nid; m.cnt++; }
	else if(op == 2) {
		bool r = eventpp::removeListener(*l, Cb(nid));
		int victim = -1; for(int i = 0; i < m.cnt && victim < 0; i++) if(m.id[i] == nid) victim = i;
		vf_assert(r == (victim >= 0), 520);
		if(victim >= 0) { for(int k = victim; k < m.cnt - 1; k++) m.id[k] = m.id[k + 1]; m.cnt--; }
	}
	else if(op < 3 + nh) {
		unsigned k = op - 3; int pos = k < (unsigned)n ? (int)k : m.cnt;
		if(k < (unsigned)n && k > 0) vf_cover(COV_INSERT_MID);
		l->insert(Cb(nid), handle_of(k));
		for(int j = m.cnt; j > pos; j--) m.id[j] = m.id[j - 1]; m.id[pos] = nid; m.cnt++;
	}
	else {
		unsigned k = op - 3 - nh;
		bool r = l->remove(handle_of(k));
		vf_assert(r == (k < (unsigned)n), 521);
		if(k < (unsigned)n) { if(k > 0 && (int)k < n - 1) vf_cover(COV_REMOVE_MID); for(int j = (int)k; j < m.cnt - 1; j++) m.id[j] = m.id[j + 1]; m.cnt--; hs[k] = CL::Handle(); }
	}
	// ---- INV re-established, and the abstraction commutes: the list shows exactly the model's content
	check_inv(*l, m, 530);
	uint32_t a = vf_nondet_u32(), b = vf_nondet_u32();
	g_tr.clear(); (*l)(a, b);
	vf_assert(g_tr.n == m.cnt, 540);
	for(int i = 0; i < m.cnt && i < g_tr.n; i++) { vf_assert(g_tr.e[i].id == m.id[i], 541); vf_assert(g_tr.e[i].a == a && g_tr.e[i].b == b, 542); }
	vf_assert(l->empty() == (m.cnt == 0), 543);
	{ int c = 0; l->forEach([&](const Cb &) { ++c; }); vf_assert(c == m.cnt, 544); }
	vf_obs(1, (uint64_t)m.cnt);
	for(int i = 0; i < MAXN; i++) hs[i] = CL::Handle();
	stale = CL::Handle();
	delete l;
	vf_end();
}
