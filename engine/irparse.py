#!/usr/bin/env python3
"""Parser for clang-14 textual LLVM IR (typed pointers).
Used by symx.py (symbolic executor) and ir2c.py (IR->C for CBMC)."""
import re, sys, collections

TOK = re.compile(r'''\s*(?:
  (?P<lvar>%"(?:[^"\\]|\\.)*"|%[-a-zA-Z$._0-9]+)|
  (?P<gvar>@"(?:[^"\\]|\\.)*"|@[-a-zA-Z$._0-9]+)|
  (?P<cstr>c"(?:[^"\\]|\\.)*")|
  (?P<str>"(?:[^"\\]|\\.)*")|
  (?P<meta>![-a-zA-Z$._0-9]*)|
  (?P<attr>\#\d+)|
  (?P<num>-?\d+\.\d+(?:e[+-]?\d+)?|0x[0-9A-Fa-f]+|-?\d+)|
  (?P<dots>\.\.\.)|
  (?P<word>[a-zA-Z_][a-zA-Z_0-9.]*)|
  (?P<punct>[*\[\]{}<>(),=:|])
)''', re.X)

def tokenize(s):
    out = []; i = 0; n = len(s)
    while i < n:
        m = TOK.match(s, i)
        if not m:
            if s[i:].strip() == '': break
            raise SyntaxError('tokenize: %r' % s[i:i+60])
        i = m.end()
        k = m.lastgroup
        out.append((k, m.group(k)))
    return out

class T:
    __slots__ = ('k', 'a', 'b', 'c')
    def __init__(self, k, a=None, b=None, c=None):
        self.k = k; self.a = a; self.b = b; self.c = c
    def key(self):
        if self.k == 'int': return 'i%d' % self.a
        if self.k == 'ptr': return self.a.key() + '*'
        if self.k == 'arr': return '[%d x %s]' % (self.a, self.b.key())
        if self.k == 'struct': return ('<{' if self.b else '{') + ','.join(t.key() for t in self.a) + '}'
        if self.k == 'named': return '%' + self.a
        if self.k == 'func': return self.a.key() + '(' + ','.join(t.key() for t in self.b) + (',...' if self.c else '') + ')'
        return self.k
    def __repr__(self): return self.key()

VOID = T('void')
def I(n): return T('int', n)

PARAM_ATTRS = {'noundef','nonnull','noalias','nocapture','readonly','writeonly','readnone','returned','immarg',
  'signext','zeroext','inreg','nest','nofree','swiftself','swifterror'}
FN_WORDS = {'private','internal','available_externally','linkonce','weak','common','appending','extern_weak',
  'linkonce_odr','weak_odr','external','dso_local','dso_preemptable','default','hidden','protected',
  'unnamed_addr','local_unnamed_addr','fastcc','ccc','coldcc','tail','musttail','notail','noundef','nonnull','noalias',
  'zeroext','signext','inreg','nnan','ninf','nsz','arcp','contract','afn','reassoc','fast'}

class TS:
    def __init__(self, toks): self.t = toks; self.i = 0
    def peek(self, o=0):
        j = self.i + o
        return self.t[j] if j < len(self.t) else (None, None)
    def next(self):
        x = self.t[self.i]; self.i += 1; return x
    def accept(self, v):
        if self.i < len(self.t) and self.t[self.i][1] == v:
            self.i += 1; return True
        return False
    def expect(self, v):
        x = self.next()
        if x[1] != v: raise SyntaxError('expected %r got %r at %r' % (v, x, self.t[max(0,self.i-6):self.i+4]))
    def eof(self): return self.i >= len(self.t)

def unq(name):
    # %"foo" or %foo -> raw name
    n = name[1:]
    if n.startswith('"'): n = n[1:-1]
    return n

def is_type_start(tok):
    k, v = tok
    if k == 'lvar': return True
    if k == 'word' and (re.fullmatch(r'i\d+', v) or v in ('void','float','double','half','label','metadata','opaque','x86_fp80','fp128','ptr','token')): return True
    if k == 'punct' and v in '[{<': return True
    return False

def parse_type(ts):
    k, v = ts.next()
    if k == 'lvar': t = T('named', unq(v))
    elif k == 'word':
        m = re.fullmatch(r'i(\d+)', v)
        if m: t = I(int(m.group(1)))
        elif v in ('void','float','double','label','metadata','opaque','x86_fp80','token'): t = T(v)
        else: raise SyntaxError('type word %r' % v)
    elif v == '[':
        n = int(ts.next()[1]); ts.expect('x'); e = parse_type(ts); ts.expect(']'); t = T('arr', n, e)
    elif v == '{':
        fs = []
        if not ts.accept('}'):
            while True:
                fs.append(parse_type(ts))
                if ts.accept('}'): break
                ts.expect(',')
        t = T('struct', fs, False)
    elif v == '<':
        if ts.peek()[1] == '{':
            t = parse_type(ts); t.b = True; ts.expect('>')
        else:
            n = int(ts.next()[1]); ts.expect('x'); e = parse_type(ts); ts.expect('>'); t = T('vec', n, e)
    else:
        raise SyntaxError('type %r %r' % (k, v))
    while True:
        if ts.accept('*'): t = T('ptr', t)
        elif ts.peek()[1] == '(' :
            # function type
            ts.next(); ps = []; va = False
            if not ts.accept(')'):
                while True:
                    if ts.peek()[0] == 'dots': ts.next(); va = True
                    else: ps.append(parse_type(ts))
                    if ts.accept(')'): break
                    ts.expect(',')
            t = T('func', t, ps, va)
        else: break
    return t

# ---------------- values -----------------
class V:
    __slots__ = ('k','t','a','b','c')
    def __init__(self, k, t, a=None, b=None, c=None): self.k=k; self.t=t; self.a=a; self.b=b; self.c=c

CASTS = {'bitcast','trunc','zext','sext','ptrtoint','inttoptr','addrspacecast','fptoui','fptosi','uitofp','sitofp','fpext','fptrunc'}
BINOPS = {'add','sub','mul','udiv','sdiv','urem','srem','and','or','xor','shl','lshr','ashr'}

def skip_param_attrs(ts):
    while True:
        k, v = ts.peek()
        if k == 'word' and v in PARAM_ATTRS: ts.next()
        elif k == 'word' and v == 'align': ts.next(); ts.next()
        elif k == 'word' and v in ('dereferenceable','dereferenceable_or_null'):
            ts.next(); ts.expect('('); ts.next(); ts.expect(')')
        elif k == 'word' and v in ('sret','byval','byref','inalloca','preallocated','elementtype'):
            ts.next(); ts.expect('('); parse_type(ts); ts.expect(')')
        else: break

def parse_value(ts, ty):
    k, v = ts.next()
    if k == 'lvar': return V('local', ty, unq(v))
    if k == 'gvar': return V('global', ty, unq(v))
    if k == 'num':
        if ty.k in ('float','double'): return V('fp', ty, v)
        return V('int', ty, int(v, 0) if not v.startswith('0x') else int(v,16))
    if k == 'word':
        if v == 'true': return V('int', ty, 1)
        if v == 'false': return V('int', ty, 0)
        if v == 'null': return V('null', ty)
        if v in ('undef','poison'): return V('undef', ty)
        if v == 'zeroinitializer': return V('zero', ty)
        if v in CASTS:
            ts.expect('('); st = parse_type(ts); sv = parse_value(ts, st); ts.expect('to'); dt = parse_type(ts); ts.expect(')')
            return V('cast', dt, v, sv)
        if v == 'getelementptr':
            ts.accept('inbounds'); ts.expect('('); bt = parse_type(ts); ts.expect(',')
            pt = parse_type(ts); pv = parse_value(ts, pt); idx = []
            while ts.accept(','):
                ts.accept('inrange')
                it = parse_type(ts); idx.append(parse_value(ts, it))
            ts.expect(')')
            return V('gep', ty, bt, pv, idx)
        if v in BINOPS or v == 'icmp' or v == 'select':
            raise SyntaxError('constexpr %s unsupported' % v)
    if k == 'cstr':
        return V('cstr', ty, v[2:-1])
    if v == '{' or (v == '<' and ts.peek()[1] == '{'):
        packed = False
        if v == '<': ts.next(); packed = True
        es = []
        if not ts.accept('}'):
            while True:
                et = parse_type(ts); es.append(parse_value(ts, et))
                if ts.accept('}'): break
                ts.expect(',')
        if packed: ts.expect('>')
        return V('agg', ty, es)
    if v == '<':
        es = []
        if not ts.accept('>'):
            while True:
                et = parse_type(ts); es.append(parse_value(ts, et))
                if ts.accept('>'): break
                ts.expect(',')
        return V('agg', ty, es)
    if v == '[':
        es = []
        if not ts.accept(']'):
            while True:
                et = parse_type(ts); es.append(parse_value(ts, et))
                if ts.accept(']'): break
                ts.expect(',')
        return V('agg', ty, es)
    raise SyntaxError('value %r %r' % (k, v))

def parse_tv(ts):
    t = parse_type(ts); skip_param_attrs(ts); return parse_value(ts, t)

# ---------------- module -----------------
class Func:
    def __init__(self): self.name=None; self.ret=None; self.params=[]; self.va=False; self.blocks=[]; self.defined=False; self.attrs=set(); self.linkage=''
class Inst:
    __slots__=('op','res','ty','ops','x','c','h','dbg','lib','lk','sp')
    def __init__(self, op, res=None, ty=None, ops=None, x=None): self.op=op; self.res=res; self.ty=ty; self.ops=ops or []; self.x=x; self.c=None; self.h=None; self.dbg=None; self.lib=None; self.lk=None; self.sp=False

class Module:
    def __init__(self):
        self.types = collections.OrderedDict()  # name -> T or None (opaque)
        self.globals = collections.OrderedDict()  # name -> (type, init V or None, const)
        self.funcs = collections.OrderedDict()
        self.attrgroups = {}
        self.md = {}   # debug metadata: id -> (kind, scope, file, inlinedAt, filename)

MD_RE = re.compile(r'^!(\d+) = (?:distinct )?!(DILocation|DISubprogram|DILexicalBlock|DILexicalBlockFile|DIFile)\((.*)\)\s*$')
DBG_RE = re.compile(r'!dbg !(\d+)')

def strip_comment(line):
    # remove ; comments outside quotes
    out = []; q = False; i = 0
    while i < len(line):
        c = line[i]
        if q:
            out.append(c)
            if c == '\\': out.append(line[i+1]); i += 1
            elif c == '"': q = False
        else:
            if c == '"': q = True; out.append(c)
            elif c == ';': break
            else: out.append(c)
        i += 1
    return ''.join(out).rstrip()

def parse_module(text):
    m = Module()
    lines = [strip_comment(l) for l in text.split('\n')]
    i = 0
    while i < len(lines):
        l = lines[i]; i += 1
        if not l.strip(): continue
        if l.startswith('!'):
            mm = MD_RE.match(l)
            if mm:
                body = mm.group(3)
                def fld(rx):
                    x = re.search(rx, body); return x.group(1) if x else None
                sc = fld(r'scope: !(\d+)'); fi = fld(r'file: !(\d+)'); ia = fld(r'inlinedAt: !(\d+)')
                fname = fld(r'filename: "([^"]*)"'); dname = fld(r'directory: "([^"]*)"')
                if fname is not None and not fname.startswith('/') and dname: fname = dname.rstrip('/') + '/' + fname      # clang records paths relative to the compilation directory
                ln = fld(r'line: (\d+)')
                m.md[int(mm.group(1))] = (mm.group(2), int(sc) if sc else None, int(fi) if fi else None, int(ia) if ia else None, fname, int(ln) if ln else None)
            continue
        if l.startswith('source_filename') or l.startswith('target ') or l.startswith('$'): continue
        if l.startswith('attributes '):
            mm = re.match(r'attributes (#\d+) = \{(.*)\}', l)
            m.attrgroups[mm.group(1)] = set(re.findall(r'[a-z_]+', re.sub(r'"[^"]*"(="[^"]*")?', '', mm.group(2))))
            continue
        if l.startswith('%'):
            ts = TS(tokenize(l)); name = unq(ts.next()[1]); ts.expect('='); ts.expect('type')
            if ts.peek()[1] == 'opaque': m.types[name] = None
            else: m.types[name] = parse_type(ts)
            continue
        if l.startswith('@'):
            ts = TS(tokenize(l)); name = unq(ts.next()[1]); ts.expect('=')
            external = False; const = False
            while True:
                k, v = ts.peek()
                if k == 'word' and v in ('global','constant'):
                    ts.next(); const = (v == 'constant'); break
                if v in ('external','extern_weak'): external = True
                if v == 'thread_local' : ts.next();
                elif v == 'alias': raise SyntaxError('alias unsupported')
                else: ts.next()
            ty = parse_type(ts); init = None
            if not external and not ts.eof() and ts.peek()[1] != ',':
                init = parse_value(ts, ty)
            m.globals[name] = (ty, init, const)
            continue
        if l.startswith('declare') or l.startswith('define'):
            ts = TS(tokenize(l)); f = Func(); f.defined = ts.next()[1] == 'define'
            dm = DBG_RE.search(l); f.dbg = int(dm.group(1)) if dm else None
            while not is_type_start(ts.peek()) or (ts.peek()[0]=='word' and ts.peek()[1] in FN_WORDS):
                k, v = ts.next()
                if v == 'align': ts.next()
                elif v in ('dereferenceable','dereferenceable_or_null'): ts.expect('('); ts.next(); ts.expect(')')
                else: f.linkage += ' ' + v
            f.ret = parse_type_nofn(ts)
            f.name = unq(ts.next()[1]); ts.expect('(')
            if not ts.accept(')'):
                n = 0
                while True:
                    if ts.peek()[0] == 'dots': ts.next(); f.va = True
                    else:
                        pt = parse_type(ts); skip_param_attrs(ts)
                        if ts.peek()[0] == 'lvar': pn = unq(ts.next()[1])
                        else: pn = str(n)
                        f.params.append((pt, pn)); n += 1
                    if ts.accept(')'): break
                    ts.expect(',')
            while not ts.eof():
                k, v = ts.next()
                if k == 'attr': f.attrs |= m.attrgroups.get(v, set()) if v in m.attrgroups else {('grp', v)}
                elif k == 'word': f.attrs.add(v)
            m.funcs[f.name] = f
            if f.defined:
                cur = None; nameless = len(f.params)
                # entry block label is implicit: its number = number of unnamed params... use 'entry'
                body = []
                while lines[i].strip() != '}':
                    body.append(lines[i]); i += 1
                i += 1
                f.body_lines = body
            continue
        raise SyntaxError('toplevel: ' + l[:80])
    # resolve attr groups parsed later
    for f in m.funcs.values():
        ng = set()
        for a in f.attrs:
            if isinstance(a, tuple): ng |= m.attrgroups.get(a[1], set())
            else: ng.add(a)
        f.attrs = ng
    for f in m.funcs.values():
        if f.defined: parse_body(m, f)
    return m

def parse_type_nofn(ts):
    # return type of a define/declare: must not swallow "(params)" as function type. Parse base + stars only,
    # but function-pointer return types look like "void (i32)* @f(" -- handle by lookahead: a '(' directly followed
    # (after matching paren) by '*' is a function type.
    save = ts.i
    k, v = ts.peek()
    t = None
    # parse a base type without suffix
    def base():
        k, v = ts.next()
        if k == 'lvar': return T('named', unq(v))
        if k == 'word':
            mm = re.fullmatch(r'i(\d+)', v)
            if mm: return I(int(mm.group(1)))
            return T(v)
        ts.i -= 1
        # complex: delegate
        return None
    b = base()
    if b is None:
        # struct/array literal return type
        # temporarily parse with full parser but guard
        t = parse_type_guard(ts)
        return t
    t = b
    while True:
        if ts.accept('*'): t = T('ptr', t)
        elif ts.peek()[1] == '(':
            # find matching paren
            d = 0; j = ts.i
            while True:
                if ts.t[j][1] == '(': d += 1
                elif ts.t[j][1] == ')':
                    d -= 1
                    if d == 0: break
                j += 1
            if j + 1 < len(ts.t) and (ts.t[j+1][1] == '*' or ts.t[j+1][0] in ('gvar', 'lvar')):      # 'ret (params)*' or a call-site function type 'void (i8*, ...) @callee'
                ts.next(); ps = []; va = False
                if not ts.accept(')'):
                    while True:
                        if ts.peek()[0] == 'dots': ts.next(); va = True
                        else: ps.append(parse_type(ts))
                        if ts.accept(')'): break
                        ts.expect(',')
                t = T('func', t, ps, va)
            else: break
        else: break
    return t

def parse_type_guard(ts):
    # parse '{...}' or '[...]' then stars
    k, v = ts.peek()
    sub = TS(ts.t); sub.i = ts.i
    # parse aggregate w/o function suffix: reuse parse_type but it would swallow '(' -- aggregate returns followed by @name so fine
    t = parse_type(sub); ts.i = sub.i; return t

def join_multiline(lines):
    out = []; buf = None
    for l in lines:
        if buf is not None:
            buf += ' ' + l.strip()
            if l.strip().endswith(']') or l.strip().startswith(']'): out.append(buf); buf = None
            continue
        s = l.strip()
        if s.startswith('switch ') and not s.endswith(']') and '] ' not in s and not re.search(r'\],', s):
            buf = s; continue
        if re.match(r'(%\S+ = )?landingpad', s):
            out.append(s); continue
        if s.startswith('to label'):
            out[-1] += ' ' + s; continue
        if s.startswith('cleanup') or s.startswith('catch ') or s.startswith('filter '):
            out[-1] += ' ' + s; continue
        out.append(l)
    return out

def parse_call_like(ts, m):
    # after 'call'/'invoke' keyword
    while ts.peek()[0] == 'word' and ts.peek()[1] in FN_WORDS: ts.next()
    while True:
        k, v = ts.peek()
        if v == 'align': ts.next(); ts.next()
        elif v in ('dereferenceable','dereferenceable_or_null'): ts.next(); ts.expect('('); ts.next(); ts.expect(')')
        elif k == 'word' and v in FN_WORDS: ts.next()
        else: break
    rt = parse_type_nofn(ts)
    fnty = None
    if rt.k == 'func': fnty = rt; rt = fnty.a   # explicit function type given (varargs)
    if rt.k == 'ptr' and rt.a.k == 'func' and ts.peek()[0] not in ('lvar','gvar'):
        pass
    k, v = ts.next()
    if k == 'gvar': callee = V('global', None, unq(v))
    elif k == 'lvar': callee = V('local', None, unq(v))
    elif k == 'word' and v in CASTS:
        ts.i -= 1; callee = parse_value(ts, None)
    else: raise SyntaxError('callee %r' % v)
    ts.expect('('); args = []
    if not ts.accept(')'):
        while True:
            at = parse_type(ts); skip_param_attrs(ts)
            if at.k == 'metadata':
                # metadata arg: skip tokens until , or )
                d = 0
                while True:
                    kk, vv = ts.peek()
                    if d == 0 and vv in (',', ')'): break
                    if vv == '(': d += 1
                    if vv == ')': d -= 1
                    ts.next()
                args.append(V('undef', at))
            else: args.append(parse_value(ts, at))
            if ts.accept(')'): break
            ts.expect(',')
    attrs = set()
    while not ts.eof() and ts.peek()[1] not in ('to', ','):
        k, v = ts.next()
        if k == 'attr': attrs |= m.attrgroups.get(v, set())
        elif k == 'word': attrs.add(v)
        elif v == '[':  # operand bundle
            while ts.next()[1] != ']': pass
    return rt, fnty, callee, args, attrs

def parse_body(m, f):
    blocks = collections.OrderedDict(); cur = None
    lines = join_multiline(f.body_lines)
    first = True
    for l in lines:
        s = l.strip()
        if not s: continue
        mm = re.match(r'^("(?:[^"\\]|\\.)*"|[-a-zA-Z$._0-9]+):\s*$', s)
        if mm:
            nm = mm.group(1)
            if nm.startswith('"'): nm = nm[1:-1]
            cur = []; blocks[nm] = cur; first = False; continue
        if first:
            # implicit entry label: next unnamed number
            n = sum(1 for (_, pn) in f.params if pn.isdigit())
            cur = []; blocks[str(n)] = cur; first = False
        ts = TS(tokenize(s)); res = None
        if ts.peek()[0] == 'lvar' and ts.peek(1)[1] == '=':
            res = unq(ts.next()[1]); ts.next()
        op = ts.next()[1]
        if op in ('tail', 'musttail', 'notail'): op = ts.next()[1]
        ins = Inst(op, res)
        dm = DBG_RE.search(s)
        if dm: ins.dbg = int(dm.group(1))
        if op == 'load':
            at = ts.accept('atomic'); ts.accept('volatile'); ins.ty = parse_type(ts); ts.expect(','); ins.ops = [parse_tv(ts)]; ins.x = (ts.peek()[1] if ts.peek()[0] == 'word' else 'seq_cst') if at else None
        elif op == 'store':
            at = ts.accept('atomic'); ts.accept('volatile'); v = parse_tv(ts); ts.expect(','); p = parse_tv(ts); ins.ops = [v, p]; ins.x = (ts.peek()[1] if ts.peek()[0] == 'word' else 'seq_cst') if at else None
        elif op == 'getelementptr':
            ts.accept('inbounds'); bt = parse_type(ts); ts.expect(','); p = parse_tv(ts); idx = []
            while ts.accept(','):
                if ts.peek()[0] == 'meta': break
                idx.append(parse_tv(ts))
            ins.x = bt; ins.ops = [p] + idx
        elif op in CASTS:
            v = parse_tv(ts); ts.expect('to'); ins.ty = parse_type(ts); ins.ops = [v]
        elif op in BINOPS:
            fl = set()
            while ts.peek()[1] in ('nuw','nsw','exact'): fl.add(ts.next()[1])
            ins.ty = parse_type(ts); a = parse_value(ts, ins.ty); ts.expect(','); b = parse_value(ts, ins.ty); ins.ops=[a,b]; ins.x = fl
        elif op == 'icmp':
            ins.x = ts.next()[1]; t = parse_type(ts); a = parse_value(ts, t); ts.expect(','); b = parse_value(ts, t); ins.ops=[a,b]; ins.ty = I(1)
        elif op == 'phi':
            ins.ty = parse_type(ts); inc = []
            while True:
                ts.expect('['); v = parse_value(ts, ins.ty); ts.expect(','); lb = unq(ts.next()[1]); ts.expect(']'); inc.append((v, lb))
                if not ts.accept(','): break
                if ts.peek()[0] == 'meta': break
            ins.x = inc
        elif op == 'select':
            c = parse_tv(ts); ts.expect(','); a = parse_tv(ts); ts.expect(','); b = parse_tv(ts); ins.ops=[c,a,b]; ins.ty = a.t
        elif op in ('call','invoke'):
            rt, fnty, callee, args, attrs = parse_call_like(ts, m)
            ins.ty = rt; ins.ops = args; ins.x = {'callee': callee, 'fnty': fnty, 'attrs': attrs}
            if op == 'invoke':
                ts.expect('to'); ts.expect('label'); ins.x['normal'] = unq(ts.next()[1]); ts.expect('unwind'); ts.expect('label'); ins.x['unwind'] = unq(ts.next()[1])
        elif op == 'br':
            if ts.accept('label'): ins.x = [unq(ts.next()[1])]
            else:
                c = parse_tv(ts); ts.expect(','); ts.expect('label'); a = unq(ts.next()[1]); ts.expect(','); ts.expect('label'); b = unq(ts.next()[1]); ins.ops=[c]; ins.x=[a,b]
        elif op == 'switch':
            v = parse_tv(ts); ts.expect(','); ts.expect('label'); d = unq(ts.next()[1]); ts.expect('['); cases = []
            while not ts.accept(']'):
                cv = parse_tv(ts); ts.expect(','); ts.expect('label'); cases.append((cv, unq(ts.next()[1])))
            ins.ops=[v]; ins.x=(d, cases)
        elif op == 'ret':
            t = parse_type(ts)
            if t.k != 'void': ins.ops = [parse_value(ts, t)]
        elif op == 'unreachable': pass
        elif op == 'alloca':
            ts.accept('inalloca'); ins.x = parse_type(ts); ins.ops = []
            if ts.accept(',') and ts.peek()[1] != 'align' and ts.peek()[0] != 'meta': ins.ops = [parse_tv(ts)]
        elif op == 'extractvalue':
            a = parse_tv(ts); idx = []
            while ts.accept(','):
                if ts.peek()[0] == 'meta': break
                idx.append(int(ts.next()[1]))
            ins.ops=[a]; ins.x = idx
        elif op == 'insertvalue':
            a = parse_tv(ts); ts.expect(','); b = parse_tv(ts); idx = []
            while ts.accept(','):
                if ts.peek()[0] == 'meta': break
                idx.append(int(ts.next()[1]))
            ins.ops=[a,b]; ins.x = idx; ins.ty = a.t
        elif op == 'atomicrmw':
            ts.accept('volatile'); ins.x = ts.next()[1]; p = parse_tv(ts); ts.expect(','); v = parse_tv(ts); ins.ops=[p,v]; ins.ty = v.t
            ins.c = ts.peek()[1] if (not ts.eof() and ts.peek()[0] == 'word') else 'seq_cst'
        elif op == 'cmpxchg':
            ts.accept('weak'); ts.accept('volatile'); p = parse_tv(ts); ts.expect(','); c = parse_tv(ts); ts.expect(','); n = parse_tv(ts); ins.ops=[p,c,n]
            ins.ty = T('struct', [c.t, I(1)], False)
        elif op == 'fence': pass
        elif op == 'freeze':
            v = parse_tv(ts); ins.ops=[v]; ins.ty = v.t
        elif op == 'landingpad':
            ins.ty = parse_type(ts); cl = {'cleanup': False, 'catch': []}
            while not ts.eof():
                k, v = ts.next()
                if v == 'cleanup': cl['cleanup'] = True
                elif v == 'catch':
                    ct = parse_type(ts); cl['catch'].append(parse_value(ts, ct))
                elif v == 'filter':
                    raise SyntaxError('filter clause unsupported')
            ins.x = cl
        elif op == 'resume':
            ins.ops = [parse_tv(ts)]
        else:
            raise SyntaxError('unsupported instruction %s in %s: %s' % (op, f.name, s[:100]))
        cur.append(ins)
    f.blocks = blocks

