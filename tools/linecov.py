#!/usr/bin/env python3
"""tools/linecov.py [--tier quick|thorough] [--ids C01,C02,...] [--out DIR] [--report-only]

Alphabet-gap finder (NOT part of any verdict): runs the checks with VERIF_LINECOV=1, in which mode the harnesses are lowered with
-gline-tables-only and the engine records which source lines of /repo/include/eventpp its symbolic paths executed. The report lists,
per header, the lines that are present in some lowered harness (i.e. instantiated) but were never executed by any path of any run,
and the lines of the header that appear in no lowered harness at all (never instantiated or folded away by -O1).
Evidence files are not touched (VERIF_OUT is redirected to --out).
"""
import sys, os, json, glob, subprocess, argparse, collections
HERE = os.path.dirname(os.path.dirname(os.path.abspath(__file__)))
REPO = os.environ.get('VERIF_REPO', '/repo')

ap = argparse.ArgumentParser()
ap.add_argument('--tier', default='quick'); ap.add_argument('--ids', default=','.join('C%02d' % i for i in range(1, 21)))
ap.add_argument('--out', default='/tmp/verif-linecov'); ap.add_argument('--report-only', action='store_true'); ap.add_argument('-j', type=int, default=8); ap.add_argument('--par', type=int, default=2)
a = ap.parse_args()
if not a.report_only:
    env = dict(os.environ, VERIF_LINECOV='1', VERIF_OUT=a.out)
    ids = a.ids.split(','); running = []
    while ids or running:
        while ids and len(running) < a.par:
            i = ids.pop(0)
            running.append((i, subprocess.Popen([os.path.join(HERE, 'check'), i, '--tier', a.tier, '-j', str(a.j)], env=env, stdout=subprocess.PIPE, stderr=subprocess.STDOUT, text=True)))
        i, p = running.pop(0); o, _ = p.communicate()
        print(i, o.strip().split('\n')[-1], flush=True)

present = collections.defaultdict(set); covered = collections.defaultdict(set); by = collections.defaultdict(lambda: collections.defaultdict(set))
for f in glob.glob(os.path.join(a.out, 'linecov', '*.json')):
    d = json.load(open(f)); run = os.path.basename(f)[:-5]
    for fn, ln in d['present']: present[fn].add(ln)
    for fn, ln in d['covered']: covered[fn].add(ln); by[fn][ln].add(run.split('__')[0])
print('\n=== line coverage of /repo/include/eventpp by the symbolic runs (tier %s) ===' % a.tier)
for fn in sorted(set(present)):
    src = open(os.path.join(REPO, 'include/eventpp', fn)).read().split('\n')
    un = sorted(present[fn] - covered[fn])
    print('\n%s: %d lines carry code in some lowered harness, %d executed by some path, %d never executed' % (fn, len(present[fn]), len(covered[fn]), len(un)))
    for ln in un: print('   %5d  %s' % (ln, src[ln - 1].strip()[:150]))
allh = [os.path.relpath(p, os.path.join(REPO, 'include/eventpp')) for p in glob.glob(os.path.join(REPO, 'include/eventpp/**/*.h'), recursive=True)]
print('\nheaders with no line in any lowered harness:', sorted(h for h in allh if h not in present))
