// anyid.cpp -- C18: AnyId coherence laws over three ids with fully symbolic values and digests, and dispatchers keyed by AnyId.
//
// The Digester is a functional stub: the digest of a value is an arbitrary 64-bit number, constrained only to be a
// function of the value (equal values => equal digests); collisions are allowed. Values come in two "types" (tag).
#if defined(STORAGE) && STORAGE == 4
// a Storage of a foreign namespace whose == and < the APPLICATION declares at global scope (not found by ADL, only by ordinary lookup), before the
// library headers are included -- "a Storage that supports both == and <" all the same
#include <cstdint>
struct Val;
namespace thirdparty { struct NSto { uint32_t v; uint32_t tag; NSto() : v(0), tag(0) {} NSto(const ::Val & x); }; }
bool operator==(const thirdparty::NSto & a, const thirdparty::NSto & b);
bool operator<(const thirdparty::NSto & a, const thirdparty::NSto & b);
#endif
#include "common.h"

#ifndef STORAGE
#define STORAGE 1       // 1: value-storing Storage with == and <     0: EmptyAnyStorage     2: value-storing Storage constructible from ANY type
#endif
#ifndef DIGW
#define DIGW 64         // width of the Digester's result: 64 (= size_t) or 128 (wider than size_t: the digest must still be kept whole)
#endif
#ifndef MAPK
#define MAPK 0          // 0: laws only   1: EventDispatcher with std::map   2: with std::unordered_map
#endif

#if DIGW == 128
typedef unsigned __int128 DigT;
struct Val { uint64_t dig; uint64_t dighi; uint32_t v; uint32_t tag; };
static inline DigT fullDig(const Val & x) { return ((DigT)x.dighi << 64) | x.dig; }
#else
typedef uint64_t DigT;
struct Val { uint64_t dig; uint32_t v; uint32_t tag; };
static inline DigT fullDig(const Val & x) { return x.dig; }
#endif
template <typename T> struct Dig;
// the digest of an id object is its digest (as std::hash<AnyId> does for the default Digester)
template <typename S> static inline DigT fullDig(const eventpp::AnyId<Dig, S> & id) { return id.getDigest(); }
template <typename T> struct Dig { DigT operator()(const T & x) const { return fullDig(x); } };
// AnyId computes DigestType from Digester<int>
template <> struct Dig<int> { DigT operator()(const int & x) const { return (DigT)x; } };

struct Sto {
	uint32_t v; uint32_t tag;
	Sto() : v(0), tag(0) {}
	Sto(const Val & x) : v(x.v), tag(x.tag) {}
	bool operator==(const Sto & o) const { return tag == o.tag && v == o.v; }
	bool operator<(const Sto & o) const { return tag < o.tag || (tag == o.tag && v < o.v); }
};
// like Sto, but constructible from a value of any type (as std::any-like storages are): anything that is not a Val is stored as "foreign"
struct GSto {
	uint32_t v; uint32_t tag;
	GSto() : v(0), tag(0) {}
	template <typename T> GSto(const T &) : v(0), tag(0xffffu) {}
	GSto(const Val & x) : v(x.v), tag(x.tag) {}
	GSto(const GSto &) = default;
	bool operator==(const GSto & o) const { return tag == o.tag && v == o.v; }
	bool operator<(const GSto & o) const { return tag < o.tag || (tag == o.tag && v < o.v); }
};
// a Storage with NEITHER == nor <, constructible from anything, that can tell the type of what it holds (as std::any can): ids are then equal
// exactly when their digests are, whatever the stored values' types
struct TSto {
	uint32_t v; uint32_t tag;
	TSto() : v(0), tag(0) {}
	template <typename T> TSto(const T &) : v(0), tag(0xffffu) {}
	TSto(const Val & x) : v(x.v), tag(x.tag) {}
	TSto(const TSto &) = default;
	uint32_t type() const { return tag; }
	bool has_value() const { return true; }
};
#if STORAGE == 4
inline thirdparty::NSto::NSto(const ::Val & x) : v(x.v), tag(x.tag) {}
bool operator==(const thirdparty::NSto & a, const thirdparty::NSto & b) { return a.tag == b.tag && a.v == b.v; }
bool operator<(const thirdparty::NSto & a, const thirdparty::NSto & b) { return a.tag < b.tag || (a.tag == b.tag && a.v < b.v); }
using Id = eventpp::AnyId<Dig, thirdparty::NSto>;
#elif STORAGE == 3
using Id = eventpp::AnyId<Dig, TSto>;
#define COMPARABLE_STORAGE 0
#elif STORAGE == 2
using Id = eventpp::AnyId<Dig, GSto>;
#elif STORAGE
using Id = eventpp::AnyId<Dig, Sto>;
#else
using Id = eventpp::AnyId<Dig>;
#endif

static Val mk()
{
	Val x; x.dig = vf_nondet_u64(); x.v = vf_nondet_u32(); x.tag = vf_nondet_u32() & 1u;
#if DIGW == 128
	x.dighi = vf_nondet_u64();
#endif
#if MAPK == 2
	// hashed map: bucket index = digest % bucket_count is a 64-bit remainder the solver has to bit-blast; keep the
	// digest to 8 significant bits here (stated bound; every bucket/collision pattern of <= 7 buckets stays reachable)
	x.dig &= 0xffu;
#endif
	return x;
}
static bool sameValue(const Val & a, const Val & b) { return a.v == b.v && a.tag == b.tag; }
// FREEDIG: the digest is NOT assumed to be a function of the stored value -- values of different source types may be stored as the same value
// while their digests differ (int 3 and "3" in a text-holding Storage); such ids are distinct, ordered by digest, and hash differently
#ifdef FREEDIG
#define DIGEST_IS_FUNCTION_OF(a, b) ((void)0)
#else
#define DIGEST_IS_FUNCTION_OF(a, b) vf_assume(! sameValue(a, b) || fullDig(a) == fullDig(b))
#endif
static bool sameId(const Val & a, const Val & b) { return sameValue(a, b) && fullDig(a) == fullDig(b); }

static Trace g_tr;
struct Cb { uint32_t id; explicit Cb(uint32_t i) : id(i) {} void operator()(uint32_t a) const { g_tr.add(id, a, 0); } };
template <typename K, typename V> using StdMap = std::map<K, V>;
template <typename K, typename V> using HashMap = std::unordered_map<K, V>;
struct PolMap { using Threading = eventpp::SingleThreading; using Callback = Cb; template <typename K, typename V> using Map = StdMap<K, V>; };
struct PolHash { using Threading = eventpp::SingleThreading; using Callback = Cb; template <typename K, typename V> using Map = HashMap<K, V>; };

enum { COV_COLLISION = 0, COV_EQUAL_IDS, COV_LESS, COV_DISPATCH_HIT, COV_DISPATCH_MISS, COV_N };

extern "C" void harness()
{
	Val va = mk(), vb = mk(), vc = mk();
	// the digest is a function of the value
	DIGEST_IS_FUNCTION_OF(va, vb); DIGEST_IS_FUNCTION_OF(va, vc); DIGEST_IS_FUNCTION_OF(vb, vc);
#if MAPK == 0
	Id a(va), b(vb), c(vc);
	bool ab = a == b, ba = b == a, bc = b == c, ac = a == c;
	bool lab = a < b, lba = b < a, lbc = b < c, lac = a < c, lcb = c < b, lca = c < a;
	vf_assert(a == a, 160);                                   // reflexive
	vf_assert(ab == ba, 161);                                 // symmetric
	vf_assert(!(ab && bc) || ac, 162);                        // transitive
	vf_assert(!(a < a), 163);                                 // irreflexive
	vf_assert(!(lab && lba), 164);                            // asymmetric
	vf_assert(!(lab && lbc) || lac, 165);                     // transitive
	vf_assert((! lab && ! lba) == ab, 166);                   // incomparable <=> equal
	vf_assert((! lbc && ! lcb) == bc, 167);
	vf_assert((! lac && ! lca) == ac, 168);
	vf_assert(!((! lab && ! lba) && (! lbc && ! lcb)) || (! lac && ! lca), 176);   // incomparability is transitive (strict weak ordering)
	vf_assert(! ab || std::hash<Id>()(a) == std::hash<Id>()(b), 169);   // equal ids hash equally
#if STORAGE && STORAGE != 3
	vf_assert(ab == sameId(va, vb), 170);                  // colliding digests stay distinct ids; equal values are equal ids
	if(fullDig(va) == fullDig(vb) && ! sameValue(va, vb)) vf_cover(COV_COLLISION);
#else
	vf_assert(ab == (fullDig(va) == fullDig(vb)), 171);       // without storage: equal exactly when the digests are
	if(fullDig(va) == fullDig(vb) && ! sameValue(va, vb)) vf_cover(COV_COLLISION);
#endif
	{	// copies of an id (from a non-const lvalue, a const lvalue, a temporary) are the same id
		Id a2 = a; const Id & ca = a; Id a3 = ca; Id a4 = Id(va); Id a5(std::move(a4));
		vf_assert(a2 == a && a3 == a && a5 == a, 179);
		vf_assert(! (a2 < a) && ! (a < a2) && ! (a3 < a) && ! (a < a3), 180);
		vf_assert(std::hash<Id>()(a2) == std::hash<Id>()(a) && std::hash<Id>()(a3) == std::hash<Id>()(a), 181);
		vf_assert((a2 == b) == ab && (a2 < b) == lab && (b < a2) == lba, 182);
		Id d; d = a; vf_assert(d == a, 183);                  // copy assignment
	}
	if(ab) vf_cover(COV_EQUAL_IDS);
	if(lab) vf_cover(COV_LESS);
#else
#if MAPK == 1
	using D = eventpp::EventDispatcher<Id, void(uint32_t), PolMap>;
#else
	using D = eventpp::EventDispatcher<Id, void(uint32_t), PolHash>;
#endif
	D * d = new D();
	Val vd = mk();
	DIGEST_IS_FUNCTION_OF(va, vd); DIGEST_IS_FUNCTION_OF(vb, vd); DIGEST_IS_FUNCTION_OF(vc, vd);
#if MAPK == 2
	// hashed map: libstdc++ starts with 13 buckets, so every insertion/lookup of a symbolic digest forks 13 ways; two registered ids here
	// registered through an id object (non-const lvalue) and through a raw value (converted by the dispatcher)
	{ Id ida(va); d->appendListener(ida, Cb(1)); } d->appendListener(vb, Cb(2));
#else
	{ Id ida(va); d->appendListener(ida, Cb(1)); } d->appendListener(vb, Cb(2)); d->appendListener(Id(vc), Cb(3));
#endif
	uint32_t arg = vf_nondet_u32();
	g_tr.clear();
	// dispatched by a temporary id, by an id object the caller keeps, by a const id, or by the raw value
#ifndef DISPV
#define DISPV -1
#endif
	switch(DISPV >= 0 ? (unsigned)DISPV : vf_choose(4)) {
	case 0: d->dispatch(Id(vd), arg); break;
	case 1: { Id idd(vd); d->dispatch(idd, arg); break; }
	case 2: { const Id idd(vd); d->dispatch(idd, arg); break; }
	default: d->dispatch(vd, arg); break;
	}
	// exactly the listeners registered under an id equal to the dispatched one, in registration order
#if STORAGE && STORAGE != 3
	bool e1 = sameId(va, vd), e2 = sameId(vb, vd), e3 = sameId(vc, vd);
#else
	bool e1 = va.dig == vd.dig, e2 = vb.dig == vd.dig, e3 = vc.dig == vd.dig;
#endif
#if MAPK == 2
	e3 = false;
#endif
	int k = 0;
	if(e1) { vf_assert(k < g_tr.n && g_tr.e[k].id == 1 && g_tr.e[k].a == arg, 172); k++; }
	if(e2) { vf_assert(k < g_tr.n && g_tr.e[k].id == 2 && g_tr.e[k].a == arg, 173); k++; }
	if(e3) { vf_assert(k < g_tr.n && g_tr.e[k].id == 3 && g_tr.e[k].a == arg, 174); k++; }
	vf_assert(g_tr.n == k, 175);
	vf_obs(1, (uint64_t)k);
	if(k > 0) vf_cover(COV_DISPATCH_HIT); else vf_cover(COV_DISPATCH_MISS);
	if((va.dig == vd.dig && ! sameValue(va, vd)) || (va.dig == vb.dig && ! sameValue(va, vb))) vf_cover(COV_COLLISION);
	delete d;
#endif
	vf_end();
}
