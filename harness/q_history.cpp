// q_history.cpp -- C05 (with PAYLOAD!=0 also C08): single-threaded histories of EventQueue operations, including
// operations issued from listeners and predicates while a processing call runs.
//
// K top-level steps chosen by vf_choose from
//   enqueue(key 0|1) | process | processOne | processIf | processUntil | peekEvent | takeEvent | clearEvents |
//   appendListener(key 0|1) | removeListener(h)
// payload value a is symbolic; b is the enqueue sequence number. Predicate verdicts are a function of the symbolic
// payload (odd/even), so the solver decides which events are accepted. Every listener / predicate call may issue one
// re-entrant queue operation (global budget RA): enqueue | processOne | takeEvent | clearEvents | process.
// The oracle is incremental: every listener and predicate call is checked, at the moment it happens, against the
// reference model (pending array + stack of batches in flight).
#include "common.h"

#ifndef KK
#define KK 4
#endif
#ifndef RA
#define RA 1
#endif
#ifndef PAYLOAD
#define PAYLOAD 0      // 0: void(uint32_t,uint32_t)   1: void(Pay) tracked copyable   2: void(const Pay&) tracked   3: void(const MPay&) tracked move-only
#endif
#ifndef INIT_MAX
#define INIT_MAX 0      // > 0: start from an arbitrary quiescent state with up to INIT_MAX pending events and up to 2 recycled (free) slots
#endif
#ifdef DTORENQ
#define MAXP (KK + RA + 2 + INIT_MAX)
#else
#define MAXP (KK + RA + 1 + INIT_MAX)
#endif
#define MAXL 4         // listeners per key
#define MAXH (2 + KK)

static int g_live_pay = 0; static int g_bad = 0; static int g_copies = 0;
#define MAXSEQ 64
static int g_live_seq[MAXSEQ];          // live instances per event (uid = the event's sequence number; survives moves, unlike a/b)
static inline void seq_live(uint32_t uid, int d) { if(uid < MAXSEQ) g_live_seq[uid] += d; }
#ifdef DTORENQ
// an argument type whose destructor enqueues into the same queue (an RAII "completion token"): when the last instance of the armed event's
// argument dies -- wherever the library destroys it -- one more event is enqueued. The library runs argument destructors without holding its
// own locks, so this is an ordinary enqueue; a lock held across the destructor shows as a self-deadlock on the non-recursive mutex.
static bool g_dtor_armed = false; static uint32_t g_dtor_uid = 0;
static void dtor_enqueue();
#endif
struct Pay {
	uint32_t a, b; uint32_t magic; uint32_t uid;
	Pay() : a(0), b(0), magic(0xFEEDu), uid(0) { ++g_live_pay; }
	Pay(uint32_t a_, uint32_t b_) : a(a_), b(b_), magic(0xFEEDu), uid(b_) { ++g_live_pay; seq_live(uid, 1); }
#if PAYLOAD == 3
	Pay(const Pay &) = delete; Pay & operator=(const Pay &) = delete;
#else
	Pay(const Pay & o) : a(o.a), b(o.b), magic(0xFEEDu), uid(o.uid) { if(o.magic != 0xFEEDu) ++g_bad; ++g_live_pay; ++g_copies; seq_live(uid, 1); }
	Pay & operator=(const Pay & o) { if(o.magic != 0xFEEDu || magic != 0xFEEDu) ++g_bad; seq_live(uid, -1); a = o.a; b = o.b; uid = o.uid; seq_live(uid, 1); return *this; }
#endif
	Pay(Pay && o) noexcept : a(o.a), b(o.b), magic(0xFEEDu), uid(o.uid) { if(o.magic != 0xFEEDu) ++g_bad; o.a = 0xdead0001u; o.b = 0xdead0002u; ++g_live_pay; seq_live(uid, 1); }
	Pay & operator=(Pay && o) noexcept { if(o.magic != 0xFEEDu || magic != 0xFEEDu) ++g_bad; seq_live(uid, -1); a = o.a; b = o.b; uid = o.uid; seq_live(uid, 1); o.a = 0xdead0001u; o.b = 0xdead0002u; return *this; }
	~Pay() {
		if(magic != 0xFEEDu) ++g_bad; magic = 0xDEADu; --g_live_pay; seq_live(uid, -1);
#ifdef DTORENQ
		if(g_dtor_armed && uid == g_dtor_uid && uid < MAXSEQ && g_live_seq[uid] == 0) { g_dtor_armed = false; dtor_enqueue(); }
#endif
	}
};

static void on_listener(uint32_t lid, uint32_t a, uint32_t b);
static bool on_predicate(uint32_t a, uint32_t b);

struct Cb {
	uint32_t id;
	explicit Cb(uint32_t i) : id(i) {}
#if PAYLOAD == 0
	void operator()(uint32_t a, uint32_t b) const { on_listener(id, a, b); }
#elif PAYLOAD == 1
	void operator()(Pay p) const { if(p.magic != 0xFEEDu) ++g_bad; on_listener(id, p.a, p.b); }
#else
	void operator()(const Pay & p) const { if(p.magic != 0xFEEDu) ++g_bad; on_listener(id, p.a, p.b); }
#endif
};
#ifndef THREADING
#define THREADING VMutexOnlyThreading
#endif
#ifndef ORDERED
#define ORDERED 0      // 0: plain FIFO list; 1: OrderedQueueList ascending on the (symbolic) first argument; 2: descending; 3: default comparator (by event)
#endif
#if ORDERED == 1
struct CmpArg { template <typename T> bool operator()(const T & x, const T & y) const { return std::get<0>(x.arguments) < std::get<0>(y.arguments); } };
#define KEYLESS(x, y) ((x).a < (y).a)
#elif ORDERED == 2
struct CmpArg { template <typename T> bool operator()(const T & x, const T & y) const { return std::get<0>(x.arguments) > std::get<0>(y.arguments); } };
#define KEYLESS(x, y) ((x).a > (y).a)
#elif ORDERED == 3
using CmpArg = eventpp::OrderedQueueListCompare;
#define KEYLESS(x, y) ((x).key < (y).key)
#endif
struct Pol {
	using Threading = THREADING; using Callback = Cb;
#if ORDERED
	template <typename Item> using QueueList = eventpp::OrderedQueueList<Item, CmpArg>;
#endif
};
#if PAYLOAD == 0
using Q = eventpp::EventQueue<int, void(uint32_t, uint32_t), Pol>;
#define ENQ(k, a, b) g->q->enqueue((int)(k), (uint32_t)(a), (uint32_t)(b))
#define QE_A(qe) std::get<0>((qe).arguments)
#define QE_B(qe) std::get<1>((qe).arguments)
#define PRED_SIG uint32_t a, uint32_t b
#define PRED_A a
#define PRED_B b
#elif PAYLOAD == 1
using Q = eventpp::EventQueue<int, void(Pay), Pol>;
#define ENQ(k, a, b) g->q->enqueue((int)(k), Pay((a), (b)))
#define QE_A(qe) std::get<0>((qe).arguments).a
#define QE_B(qe) std::get<0>((qe).arguments).b
#define PRED_SIG const Pay & p
#define PRED_A p.a
#define PRED_B p.b
#else
using Q = eventpp::EventQueue<int, void(const Pay &), Pol>;
#define ENQ(k, a, b) g->q->enqueue((int)(k), Pay((a), (b)))
#define QE_A(qe) std::get<0>((qe).arguments).a
#define QE_B(qe) std::get<0>((qe).arguments).b
#define PRED_SIG const Pay & p
#define PRED_A p.a
#define PRED_B p.b
#endif

struct Ev { int key; uint32_t a, b; };
enum Kind { K_PROCESS, K_IF, K_UNTIL };
struct Batch { Ev ev[MAXP]; int n; int cur; int li; int pi; bool accepted[MAXP]; bool examined[MAXP]; Kind kind; bool stopped; int ndisp; };
struct Model {
	Ev p[MAXP * 2]; int np;
	uint32_t lis[2][MAXL]; int nl[2];            // listener ids per key, in order
	Batch stack[RA + 2]; int depth;
#if ORDERED
	// stable insertion: after every pending event that does not compare greater
	void push(const Ev & e) { int i = 0; while(i < np && ! KEYLESS(e, p[i])) i++; for(int k = np; k > i; k--) p[k] = p[k - 1]; p[i] = e; np++; }
#else
	void push(const Ev & e) { p[np++] = e; }
#endif
	Ev pop_front() { Ev e = p[0]; for(int i = 1; i < np; i++) p[i - 1] = p[i]; np--; return e; }
};
struct G {
	Q * q; Model m; Q::Handle hs[MAXH]; int hkey[MAXH]; uint32_t hid[MAXH]; bool hlive[MAXH]; int nh; int budget; uint32_t seq; uint32_t nextlid;
};
static G * g;

enum { COV_PROCESS2 = 0, COV_IF_DECLINE, COV_IF_MIXED, COV_UNTIL_STOP, COV_REENTRANT_ENQ, COV_REENTRANT_TAKE, COV_TAKE, COV_PEEK, COV_CLEAR, COV_RECYCLE, COV_LISTENER_CHANGE, COV_REORDERED, COV_TIE, COV_DTOR_ENQ, COV_N };

static void reentrant_action();

static void finish_event(Batch & t)
{
	// all listeners registered for the key of the event being dispatched must have been called
	if(t.cur >= 0 && t.cur < t.n) vf_assert(t.li == g->m.nl[t.ev[t.cur].key], 70);
}

static void on_listener(uint32_t lid, uint32_t a, uint32_t b)
{
	Model & m = g->m;
	vf_assert(m.depth > 0, 71);                       // a listener runs only inside a processing call
	Batch & t = m.stack[m.depth - 1];
	if(t.kind == K_PROCESS) {
		// advance over events whose listeners are all done (or that have none)
		while(t.cur < t.n && (t.cur < 0 || t.li == m.nl[t.ev[t.cur].key])) { t.cur++; t.li = 0; }
	}
	vf_assert(t.cur >= 0 && t.cur < t.n, 72);         // no listener call without a pending event of this batch
	const Ev & e = t.ev[t.cur];
	vf_assert(t.li < m.nl[e.key], 73);                // not more calls than listeners
	vf_assert(lid == m.lis[e.key][t.li], 74);         // the listeners of the event's key, in order
	vf_assert(a == e.a && b == e.b, 75);              // with the values given to enqueue
	vf_obs(1, b);
	if(t.li == 0) t.ndisp++;
	t.li++;
	vf_assert(! g->q->emptyQueue(), 66);              // seen as non-empty from inside a listener a processing call is running
	reentrant_action();
	vf_assert(! g->q->emptyQueue(), 67);              // ... also after a nested processing call issued by this listener has returned
}

static bool on_predicate(uint32_t a, uint32_t b)
{
	Model & m = g->m;
	vf_assert(m.depth > 0, 76);
	Batch & t = m.stack[m.depth - 1];
	vf_assert(t.kind != K_PROCESS && ! t.stopped, 77);
	finish_event(t);
	t.cur = -1; t.li = 0;
	vf_assert(t.pi < t.n, 78);                        // examined at most once each, in order
	const Ev & e = t.ev[t.pi];
	vf_assert(a == e.a && b == e.b, 79);
	bool verdict = (a & 1u) != 0;                     // symbolic: the solver picks payloads that are accepted / declined
	t.examined[t.pi] = true;
	if(t.kind == K_IF) {
		t.accepted[t.pi] = verdict;
		if(verdict) { t.cur = t.pi; t.li = 0; if(m.nl[e.key] == 0) t.ndisp++; }
	}
	else {
		if(verdict) t.stopped = true;
		else { t.accepted[t.pi] = true; t.cur = t.pi; t.li = 0; if(m.nl[e.key] == 0) t.ndisp++; }
	}
	t.pi++;
	reentrant_action();
	return verdict;
}

static void begin_batch(Kind k, int count)
{
	Model & m = g->m;
	Batch & t = m.stack[m.depth++];
	t.n = 0; t.cur = -1; t.li = 0; t.pi = 0; t.kind = k; t.stopped = false; t.ndisp = 0;
	for(int i = 0; i < count; i++) { t.accepted[t.n] = false; t.examined[t.n] = false; t.ev[t.n++] = m.pop_front(); }
}

static void end_batch(bool result)
{
	Model & m = g->m;
	Batch & t = m.stack[m.depth - 1];
	if(t.kind == K_PROCESS) {
		while(t.cur < t.n && (t.cur < 0 || t.li == m.nl[t.ev[t.cur].key])) { t.cur++; t.li = 0; }
		vf_assert(t.cur == t.n, 80);                  // every event of the batch was dispatched to all its listeners
		vf_assert(result == (t.n > 0), 81);
	}
	else {
		finish_event(t);
		bool any = false; int kept = 0; Ev keep[MAXP];
		for(int i = 0; i < t.n; i++) {
			if(t.kind == K_IF) vf_assert(t.examined[i], 82);                         // processIf examines every event
			else vf_assert(t.examined[i] == (i < t.pi), 83);
			if(t.accepted[i]) any = true; else keep[kept++] = t.ev[i];
		}
		if(t.kind == K_UNTIL) vf_assert(t.stopped || t.pi == t.n, 84);
		vf_assert(result == any, 85);
		// declined / not reached events stay queued in their original order ahead of newer ones
#if ORDERED
		// put-back events are merged with the newer ones in comparator order, older first among equals
		{ Ev newer[MAXP * 2]; int nn = m.np; for(int i = 0; i < nn; i++) newer[i] = m.p[i];
		  m.np = 0; for(int i = 0; i < kept; i++) m.p[m.np++] = keep[i];
		  for(int i = 0; i < nn; i++) m.push(newer[i]); }
#else
		for(int i = m.np - 1; i >= 0; i--) m.p[i + kept] = m.p[i];
		for(int i = 0; i < kept; i++) m.p[i] = keep[i];
		m.np += kept;
#endif
	}
	m.depth--;
}

static void do_enqueue(int key)
{
	uint32_t a = vf_nondet_u32(); uint32_t b = g->seq++;
	ENQ(key, a, b);
	Ev e; e.key = key; e.a = a; e.b = b; g->m.push(e);
#if ORDERED
	{ Model & m = g->m; for(int i = 0; i + 1 < m.np; i++) { if(m.p[i].b > m.p[i + 1].b) vf_cover(COV_REORDERED); if(! KEYLESS(m.p[i], m.p[i + 1]) && ! KEYLESS(m.p[i + 1], m.p[i])) vf_cover(COV_TIE); } }
#endif
}

#ifdef DTORENQ
static void dtor_enqueue() { if(g && g->q) { do_enqueue(0); vf_cover(COV_DTOR_ENQ); } }
#endif

static void do_take()
{
	Model & m = g->m;
	Q::QueuedEvent qe;
	bool r = g->q->takeEvent(&qe);
	vf_assert(r == (m.np > 0), 86);
	if(r) { Ev e = m.pop_front(); vf_assert(qe.event == e.key && QE_A(qe) == e.a && QE_B(qe) == e.b, 87); vf_obs(3, e.b); vf_cover(COV_TAKE); }
}

static void do_process_one()
{
	bool has = g->m.np > 0;
	begin_batch(K_PROCESS, has ? 1 : 0);
	bool r = g->q->processOne();
	end_batch(r);
}

static void do_process()
{
	if(g->m.np >= 2) vf_cover(COV_PROCESS2);
	begin_batch(K_PROCESS, g->m.np);
	bool r = g->q->process();
	end_batch(r);
}

static void reentrant_action()
{
	if(g->budget <= 0 || g->m.depth > RA) return;
	unsigned act = vf_choose(6);
	if(act == 0) return;
	g->budget--;
	if(act == 1) { do_enqueue((int)vf_choose(2)); vf_cover(COV_REENTRANT_ENQ); }
	else if(act == 2) do_process_one();
	else if(act == 3) { do_take(); vf_cover(COV_REENTRANT_TAKE); }
	else if(act == 4) {
		Model & m = g->m; volatile uint32_t disc[MAXP * 2];      /* volatile: keeps -O2 cells from turning this copy loop into vector code the engine does not execute */ int nd = m.np;
			for(int i = 0; i < nd; i++) disc[i] = m.p[i].b;
		g->q->clearEvents();
		int k = 0; for(int i = 0; i < m.np; i++) { bool d = false; for(int x = 0; x < nd; x++) if(disc[x] == m.p[i].b) d = true; if(! d) m.p[k++] = m.p[i]; } m.np = k;
	}
	else do_process();
}

extern "C" void harness()
{
	g = new G();
#ifdef HAVOC
	void * raw = malloc(sizeof(Q)); vf_havoc(raw, sizeof(Q));
	g->q = new (raw) Q;
#else
	g->q = new Q();
#endif
	g->budget = RA; g->seq = 1; g->nextlid = 100;
	Model & m = g->m;
	for(int k = 0; k < 2; k++) {
		g->hs[g->nh] = g->q->appendListener(k, Cb(g->nextlid)); g->hkey[g->nh] = k; g->hid[g->nh] = g->nextlid; g->hlive[g->nh] = true; g->nh++;
		m.lis[k][m.nl[k]++] = g->nextlid++;
	}
#if INIT_MAX > 0
	{	// every quiescent state with n <= INIT_MAX pending events and f <= 2 free slots (payloads symbolic): a step from here is an
		// inductive step for the queue -- the state's shape is determined by (n, f), only data varies
		unsigned f = vf_choose(3), n0 = vf_choose(INIT_MAX + 1);
		for(unsigned i = 0; i < f; i++) do_enqueue((int)(i & 1));
		if(f) { int b0 = g->budget; g->budget = 0; do_process(); g->budget = b0; vf_assert(m.np == 0, 98); }
		for(unsigned i = 0; i < n0; i++) do_enqueue((int)vf_choose(2));
	}
#endif
#ifdef DTORENQ
	{ unsigned c = vf_choose(3); if(c == 1) { g_dtor_armed = true; g_dtor_uid = g->seq; } else if(c == 2 && m.np > 0) { g_dtor_armed = true; g_dtor_uid = m.p[0].b; } }
#endif
	for(int step = 0; step < KK; step++) {
		unsigned op = vf_choose(11 + (unsigned)g->nh);
		if(op <= 1) {
			bool recycled = ! g->q->freeList.empty();
			do_enqueue((int)op);
			if(recycled) vf_cover(COV_RECYCLE);
		}
		else if(op == 2) do_process();
		else if(op == 3) do_process_one();
		else if(op == 4) {
			begin_batch(K_IF, m.np);
			bool r = g->q->processIf([](PRED_SIG) -> bool { return on_predicate(PRED_A, PRED_B); });
			Batch & t = m.stack[m.depth - 1]; bool anyA = false, anyD = false;
			for(int i = 0; i < t.n; i++) { if(t.accepted[i]) anyA = true; else anyD = true; }
			if(anyD) vf_cover(COV_IF_DECLINE);
			if(anyA && anyD) vf_cover(COV_IF_MIXED);
			end_batch(r);
		}
		else if(op == 5) {
			begin_batch(K_UNTIL, m.np);
			bool r = g->q->processUntil([](PRED_SIG) -> bool { return on_predicate(PRED_A, PRED_B); });
			if(m.stack[m.depth - 1].stopped) vf_cover(COV_UNTIL_STOP);
			end_batch(r);
		}
		else if(op == 6) {
#if PAYLOAD != 3
			Q::QueuedEvent qe;
			bool r = g->q->peekEvent(&qe);
			vf_assert(r == (m.np > 0), 88);
			if(r) { vf_assert(qe.event == m.p[0].key && QE_A(qe) == m.p[0].a && QE_B(qe) == m.p[0].b, 89); vf_cover(COV_PEEK); }
#else
			do_take();
#endif
		}
		else if(op == 7) do_take();
		else if(op == 8) {
			if(m.np > 0) vf_cover(COV_CLEAR);
			// the events pending when the call begins are the ones it discards (an argument's destructor may enqueue a new one meanwhile: that one stays)
			volatile uint32_t disc[MAXP * 2];      /* volatile: keeps -O2 cells from turning this copy loop into vector code the engine does not execute */ int nd = m.np;
			for(int i = 0; i < nd; i++) disc[i] = m.p[i].b;
			g->q->clearEvents();
#if PAYLOAD != 0
			for(int i = 0; i < nd; i++) if(disc[i] < MAXSEQ) vf_assert(g_live_seq[disc[i]] == 0, 90);   // the arguments of the events it discards are released before clearEvents returns
#endif
			{ int k = 0; for(int i = 0; i < m.np; i++) { bool d = false; for(int x = 0; x < nd; x++) if(disc[x] == m.p[i].b) d = true; if(! d) m.p[k++] = m.p[i]; } m.np = k; }
		}
		else if(op <= 10) {
			int k = (int)op - 9;
			if(m.nl[k] < MAXL && g->nh < MAXH) {
				g->hs[g->nh] = g->q->appendListener(k, Cb(g->nextlid)); g->hkey[g->nh] = k; g->hid[g->nh] = g->nextlid; g->hlive[g->nh] = true; g->nh++;
				m.lis[k][m.nl[k]++] = g->nextlid++;
				vf_cover(COV_LISTENER_CHANGE);
			}
		}
		else {
			int h = (int)op - 11;
			bool r = g->q->removeListener(g->hkey[h], g->hs[h]);
			vf_assert(r == g->hlive[h], 91);
			if(r) {
				int k = g->hkey[h]; int j = 0;
				for(int i = 0; i < m.nl[k]; i++) if(m.lis[k][i] != g->hid[h]) m.lis[k][j++] = m.lis[k][i];
				m.nl[k] = j; g->hlive[h] = false;
			}
		}
		vf_assert(m.depth == 0, 92);
		vf_assert(g->q->emptyQueue() == (m.np == 0), 93);
#if PAYLOAD != 0
		// the pending events' arguments are alive ; WHEN a consumed event's arguments die is only bounded
		// by the queue's destruction (assertion 96), so nothing is demanded of them here
		vf_assert(g_live_pay >= m.np, 94);
		for(int i = 0; i < m.np; i++) if(m.p[i].b < MAXSEQ) vf_assert(g_live_seq[m.p[i].b] >= 1, 100);
		vf_assert(g_bad == 0, 95);
#endif
	}
	{	// final drain: whatever is still pending comes out exactly once, in order, and the queue reports empty afterwards
#ifdef DTORENQ
		g_dtor_armed = false;
#endif
		g->budget = 0;
		begin_batch(K_PROCESS, m.np);
		bool r = g->q->process();
		end_batch(r);
		vf_assert(g->q->emptyQueue() && m.np == 0, 99);
	}
	for(int i = 0; i < MAXH; i++) g->hs[i] = Q::Handle();
#ifdef HAVOC
	g->q->~Q(); free(raw);
#else
	delete g->q;
#endif
#if PAYLOAD != 0
	vf_assert(g_live_pay == 0, 96);                   // queue destruction releases the arguments of pending events
	vf_assert(g_bad == 0, 97);
#endif
	delete g; g = nullptr;
	vf_end();
}
