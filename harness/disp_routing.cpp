// disp_routing.cpp -- C04: dispatch reaches exactly the dispatched event's listeners, in order, once, with argument
// values equal to the caller's, for every ArgumentPassingMode / key type / map kind / value category.
//
// CFG (compile-time configuration):
//  0 int key, prototype void(int, Val)            event included (AutoDetect), default getEvent
//  1 int key, prototype void(Val)                 event excluded (ArgumentPassingExcludeEvent)
//  2 MoveKey key by value, prototype void(MoveKey, uint32_t), dispatched from temporaries and from lvalues
//  3 getEvent policy taking (const Ev &, const Val &), prototype void(const Ev &, Val)
//  4 getEvent policy taking its parameters BY VALUE, prototype void(Ev, Val)
//  5 enum class key, prototype void(Color, Val), ArgumentPassingIncludeEvent
//  7 event excluded from the prototype AND a non-identity getEvent policy: prototype void(Val), getEvent(code, val) = code >> 8
//  8 int key, prototype void(int, Val &): listeners modify the argument; the next listener and the caller see the modification
//  9 getEvent policy returning a const reference; the event object is convertible to the key type (to a different value)
//  6 std::string key by value, prototype void(std::string, uint32_t) (thorough)
// MAPK: 0 default map, 1 std::map, 2 std::unordered_map.
// Keys are symbolic: three registered keys k1,k2,k3 and a dispatched key kd -- the solver partitions them into
// equal / different.
#include "common.h"
#if CFG == 6
template class std::basic_string<char>;   // extern template in libstdc++: put its members into this translation unit's IR
#endif

#ifndef CFG
#define CFG 0
#endif
#ifndef MAPK
#define MAPK 1
#endif
// VIAQUEUE: the dispatcher is an EventQueue and every dispatch goes through enqueue + process

static Trace g_tr;

// a movable payload: a moved-from instance is recognisable
struct Val {
	uint32_t x; uint32_t state;
	Val() : x(0), state(1) {}
	explicit Val(uint32_t v) : x(v), state(1) {}
	Val(const Val & o) : x(o.x), state(o.state) {}
	Val(Val && o) noexcept : x(o.x), state(o.state) { o.x = 0xdead0000u; o.state = 2; }
	Val & operator=(const Val & o) { x = o.x; state = o.state; return *this; }
	Val & operator=(Val && o) noexcept { x = o.x; state = o.state; o.x = 0xdead0000u; o.state = 2; return *this; }
};

struct MoveKey {
	uint32_t k; uint32_t state;
	MoveKey() : k(0), state(1) {}
	explicit MoveKey(uint32_t v) : k(v), state(1) {}
	MoveKey(const MoveKey & o) : k(o.k), state(o.state) {}
	MoveKey(MoveKey && o) noexcept : k(o.k), state(o.state) { o.k = 0; o.state = 2; }       // moved-from key == MoveKey(0) like an empty string
	MoveKey & operator=(const MoveKey & o) { k = o.k; state = o.state; return *this; }
	MoveKey & operator=(MoveKey && o) noexcept { k = o.k; state = o.state; o.k = 0; o.state = 2; return *this; }
	bool operator<(const MoveKey & o) const { return k < o.k; }
	bool operator==(const MoveKey & o) const { return k == o.k; }
};
namespace std { template <> struct hash<MoveKey> { size_t operator()(const MoveKey & m) const noexcept { return m.k; } }; }

enum class Color : uint32_t { };
#if CFG == 9
struct Ev { uint32_t type; uint32_t extra; operator uint32_t() const { return extra; } };   // converts to the key type, but NOT to the event the policy yields
#else
struct Ev { uint32_t type; uint32_t extra; };
#endif

template <typename K, typename V> using StdMap = std::map<K, V>;
template <typename K, typename V> using HashMap = std::unordered_map<K, V>;

#ifdef VIAQUEUE
#define DTYPE eventpp::EventQueue
#else
#define DTYPE eventpp::EventDispatcher
#endif

struct PolBase {
	using Threading = VMutexOnlyThreading;
#if MAPK == 1
	template <typename K, typename V> using Map = StdMap<K, V>;
#elif MAPK == 2
	template <typename K, typename V> using Map = HashMap<K, V>;
#endif
};

#if CFG == 0
// a canContinueInvoking policy that takes the arguments BY VALUE: it must get copies, the listeners after it the intact values
using Key = int; struct Pol : PolBase { static bool canContinueInvoking(int, Val v) { Val sink(std::move(v)); (void)sink; return true; } }; using D = DTYPE<Key, void(int, Val), Pol>;
#elif CFG == 1
using Key = int; struct Pol : PolBase { using ArgumentPassingMode = eventpp::ArgumentPassingExcludeEvent; }; using D = DTYPE<Key, void(Val), Pol>;
#elif CFG == 2
using Key = MoveKey; struct Pol : PolBase {}; using D = DTYPE<Key, void(MoveKey, uint32_t), Pol>;
#elif CFG == 3
using Key = uint32_t; struct Pol : PolBase { static uint32_t getEvent(const Ev & e, const Val &) { return e.type; } }; using D = DTYPE<Key, void(const Ev &, Val), Pol>;
#elif CFG == 9
// a getEvent policy that returns a REFERENCE into its argument, on an event type that is itself convertible to the key
using Key = uint32_t; struct Pol : PolBase { static const uint32_t & getEvent(const Ev & e, const Val &) { return e.type; } }; using D = DTYPE<Key, void(const Ev &, Val), Pol>;
#elif CFG == 4
using Key = uint32_t; struct Pol : PolBase { static uint32_t getEvent(Ev e, Val v) { (void)v; return e.type; } }; using D = DTYPE<Key, void(Ev, Val), Pol>;
#elif CFG == 7
using Key = uint32_t; struct Pol : PolBase { using ArgumentPassingMode = eventpp::ArgumentPassingExcludeEvent; static uint32_t getEvent(uint32_t code, const Val &) { return code >> 8; } }; using D = DTYPE<Key, void(Val), Pol>;
#elif CFG == 8
using Key = int; struct Pol : PolBase {}; using D = DTYPE<Key, void(int, Val &), Pol>;
#elif CFG == 5
using Key = Color; struct Pol : PolBase { using ArgumentPassingMode = eventpp::ArgumentPassingIncludeEvent; }; using D = DTYPE<Key, void(Color, Val), Pol>;
#else
using Key = std::string; struct Pol : PolBase {}; using D = DTYPE<Key, void(std::string, uint32_t), Pol>;
#endif

#ifdef VIAQUEUE
#define DISPATCH_FN enqueue
#else
#define DISPATCH_FN dispatch
#endif
static uint32_t g_expect_key, g_expect_val; static bool g_ok;
static uint32_t keyval(uint32_t raw) {
#if CFG == 7
	return raw & 0xffffu;
#elif MAPK != 1
	return raw & 0xffu;     // hashed maps: keep keys to 8 significant bits (bucket index = key % bucket_count)
#else
	return raw;
#endif
}
#if CFG == 6
static std::string mkkey(uint32_t v) { std::string s(20, 'a'); s[0] = (char)('a' + (v & 3)); s[19] = (char)('a' + ((v >> 2) & 3)); return s; }   // beyond the SSO size
static uint32_t keyid(const std::string & s) { if(s.size() != 20) return 0xffffffffu; return (uint32_t)(s[0] - 'a') | ((uint32_t)(s[19] - 'a') << 2); }
#endif
static Key mk(uint32_t v) {
#if CFG == 2
	return MoveKey(v);
#elif CFG == 5
	return (Color)v;
#elif CFG == 6
	return mkkey(v);
#else
	return (Key)v;
#endif
}

// listener bodies: record (listener id, event id as seen, payload as seen)
static void rec(uint32_t lid, uint32_t ev, uint32_t payload, uint32_t state) { if(state != 1) g_ok = false; g_tr.add(lid, ev, payload); }

static void add_listeners(D & d, const Key & k, uint32_t base)
{
#if CFG == 0
	d.appendListener(k, [base](int e, Val v) { rec(base, (uint32_t)e, v.x, v.state); Val sink(std::move(v)); (void)sink; });     // by value, and consumes its copy
	d.appendListener(k, [base](int e, const Val & v) { rec(base + 1, (uint32_t)e, v.x, v.state); });
#elif CFG == 8
	d.appendListener(k, [base](int e, Val & v) { rec(base, (uint32_t)e, v.x, v.state); v.x += 1u; });
	d.appendListener(k, [base](int e, Val & v) { rec(base + 1, (uint32_t)e, v.x, v.state); v.x += 1u; });
#elif CFG == 1 || CFG == 7
	d.appendListener(k, [base](Val v) { rec(base, g_expect_key, v.x, v.state); Val sink(std::move(v)); (void)sink; });
	d.appendListener(k, [base](const Val & v) { rec(base + 1, g_expect_key, v.x, v.state); });
#elif CFG == 2
	d.appendListener(k, [base](MoveKey e, uint32_t a) { rec(base, e.k, a, e.state); MoveKey sink(std::move(e)); (void)sink; });
	d.appendListener(k, [base](const MoveKey & e, uint32_t a) { rec(base + 1, e.k, a, e.state); });
#elif CFG == 3 || CFG == 4 || CFG == 9
	d.appendListener(k, [base](const Ev & e, Val v) { rec(base, e.type, v.x, v.state); Val sink(std::move(v)); (void)sink; });
	d.appendListener(k, [base](const Ev & e, const Val & v) { rec(base + 1, e.type, v.x, v.state); });
#elif CFG == 5
	d.appendListener(k, [base](Color e, Val v) { rec(base, (uint32_t)e, v.x, v.state); Val sink(std::move(v)); (void)sink; });
	d.appendListener(k, [base](Color e, const Val & v) { rec(base + 1, (uint32_t)e, v.x, v.state); });
#else
	d.appendListener(k, [base](std::string e, uint32_t a) { rec(base, keyid(e), a, 1); std::string sink(std::move(e)); (void)sink; });
	d.appendListener(k, [base](const std::string & e, uint32_t a) { rec(base + 1, keyid(e), a, 1); });
#endif
}

enum { COV_HIT_FIRST = 0, COV_HIT_SECOND, COV_MISS, COV_DUP_KEYS, COV_TEMPORARY, COV_LVALUE, COV_N };

extern "C" void harness()
{
	D * d = new D();
#if CFG == 6
	uint32_t k1 = vf_choose(4), k2 = vf_choose(4), kd = vf_choose(4);
#else
	uint32_t k1 = keyval(vf_nondet_u32()), k2 = keyval(vf_nondet_u32()), kd = keyval(vf_nondet_u32());
#endif
	uint32_t val = vf_nondet_u32();
	vf_assume(val != 0xdead0000u);
#if CFG == 2
	vf_assume(k1 != 0 && k2 != 0 && kd != 0);      // 0 is what a moved-from key looks like
#endif
	add_listeners(*d, mk(k1), 10);
	add_listeners(*d, mk(k2), 20);                  // appended to the same list when k2 == k1
	if(k1 == k2) vf_cover(COV_DUP_KEYS);
	// per event, listener management describes exactly that event's list
	{
		vf_assert(d->hasAnyListener(mk(k1)) && d->hasAnyListener(mk(k2)), 211);
		vf_assert(d->hasAnyListener(mk(kd)) == (kd == k1 || kd == k2), 212);
		int n1 = 0; d->forEach(mk(k1), [&](const D::Handle &, const D::Callback &) { n1++; });
		vf_assert(n1 == (k1 == k2 ? 4 : 2), 213);
		int n2 = 0; bool r = d->forEachIf(mk(k1), [&](const D::Handle &, const D::Callback &) -> bool { n2++; return false; });
		vf_assert(! r && n2 == 1, 214);                  // forEachIf stops at once and says so, like the callback list's
		bool r3 = d->forEachIf(mk(k1), [&](const D::Handle &, const D::Callback &) -> bool { return true; });
		vf_assert(r3, 215);
		if(kd != k1 && kd != k2) {
			// an event nobody ever listened to has no callback list: removing "from it" removes nothing, whatever handle is passed,
			// creates nothing, and leaves the listeners of the other events alone
			D::Handle h1; d->forEachIf(mk(k1), [&](const D::Handle & h, const D::Callback &) -> bool { h1 = h; return false; });
			bool rr = d->removeListener(mk(kd), h1);
			vf_assert(! rr, 216);
			vf_assert(! d->hasAnyListener(mk(kd)) && d->ownsHandle(mk(k1), h1) && ! d->ownsHandle(mk(kd), h1), 217);
			int n3 = 0; d->forEach(mk(k1), [&](const D::Handle &, const D::Callback &) { n3++; });
			vf_assert(n3 == (k1 == k2 ? 4 : 2), 218);
		}
	}
	g_tr.clear(); g_ok = true; g_expect_key = kd; g_expect_val = val;
#if CFG == 8
	unsigned form = 1; vf_cover(COV_TEMPORARY);
#else
	unsigned form = vf_choose(2);
#endif
	if(form == 0) {                                  // arguments from temporaries
		vf_cover(COV_TEMPORARY);
#if CFG == 8
		(void)0;
#elif CFG == 0 || CFG == 5
		d->DISPATCH_FN(mk(kd), Val(val));
#elif CFG == 1
		d->DISPATCH_FN(mk(kd), Val(val));
#elif CFG == 7
		d->DISPATCH_FN((kd << 8) | 0x5au, Val(val));
#elif CFG == 2 || CFG == 6
		d->DISPATCH_FN(mk(kd), val);
#else
		d->DISPATCH_FN(Ev{kd, 7u}, Val(val));
#endif
	}
	else {                                           // arguments from lvalues, which must stay intact
		vf_cover(COV_LVALUE);
		Key key = mk(kd); Val v(val);
#if CFG == 8
		d->DISPATCH_FN(key, v);
		{ uint32_t hits = (k1 == kd ? 2u : 0u) + (k2 == kd ? 2u : 0u); vf_assert(v.x == val + hits && v.state == 1, 210); }   // the caller sees every listener's modification
#elif CFG == 7
		uint32_t code = (kd << 8) | 0xa5u;
		d->DISPATCH_FN(code, v);
		vf_assert(v.x == val && v.state == 1, 200);
#elif CFG == 0 || CFG == 5 || CFG == 1
		d->DISPATCH_FN(key, v);
		vf_assert(v.x == val && v.state == 1, 200);
#elif CFG == 2
		d->DISPATCH_FN(key, val);
		vf_assert(key.k == kd && key.state == 1, 201);
#elif CFG == 6
		d->DISPATCH_FN(key, val);
		vf_assert(keyid(key) == kd, 201);
#else
		Ev ev{kd, 7u};
		d->DISPATCH_FN(ev, v);
		vf_assert(v.x == val && v.state == 1 && ev.type == kd, 202);
#endif
	}
#ifdef VIAQUEUE
	{ bool r = d->process(); vf_assert(r, 209); }
#endif
	// exactly the listeners registered for the dispatched event, in order, each once, with the caller's values
	int k = 0;
	if(k1 == kd) { vf_assert(k + 1 < g_tr.n && g_tr.e[k].id == 10 && g_tr.e[k + 1].id == 11, 203); k += 2; vf_cover(COV_HIT_FIRST); }
	if(k2 == kd) { vf_assert(k + 1 < g_tr.n && g_tr.e[k].id == 20 && g_tr.e[k + 1].id == 21, 204); k += 2; vf_cover(COV_HIT_SECOND); }
	if(k == 0) vf_cover(COV_MISS);
	vf_assert(g_tr.n == k, 205);                     // and no listener of another event
	for(int i = 0; i < g_tr.n && i < k; i++) {
		vf_assert(g_tr.e[i].a == kd, 206);           // event value as seen by the listener
#if CFG == 8
		vf_assert(g_tr.e[i].b == val + (uint32_t)i, 207);   // each listener sees the modifications of the listeners before it
#else
		vf_assert(g_tr.e[i].b == val, 207);          // payload intact for every listener, also after a by-value listener consumed its copy
#endif
		vf_obs(1, g_tr.e[i].id);
	}
	vf_assert(g_ok, 208);                            // no listener saw a moved-from argument
	delete d;
	vf_end();
}
