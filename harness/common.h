// common.h -- shared pieces of all harness translation units.
// Include AFTER the std headers eventpp needs and BEFORE the eventpp headers
// (it does the private->public trick the repo's own unit tests use).
#ifndef VF_COMMON_H
#define VF_COMMON_H

#include <atomic>
#include <condition_variable>
#include <map>
#include <unordered_map>
#include <list>
#include <memory>
#include <mutex>
#include <functional>
#include <tuple>
#include <vector>
#include <utility>
#include <type_traits>
#include <algorithm>
#include <array>
#include <cassert>
#include <chrono>
#include <string>
#include <new>
#include <cstring>
#include <cstdlib>

#include "../runtime/vf.h"

extern "C" void vf_tag(int t);
extern "C" void vf_faults_enable(int on);
extern "C" unsigned vf_live_heap(void);

#define private public
#define protected public
#include <eventpp/callbacklist.h>
#include <eventpp/eventdispatcher.h>
#include <eventpp/eventqueue.h>
#include <eventpp/hetercallbacklist.h>
#include <eventpp/hetereventdispatcher.h>
#include <eventpp/hetereventqueue.h>
#include <eventpp/mixins/mixinfilter.h>
#include <eventpp/mixins/mixinheterfilter.h>
#include <eventpp/utilities/eventutil.h>
#include <eventpp/utilities/scopedremover.h>
#include <eventpp/utilities/counterremover.h>
#include <eventpp/utilities/conditionalremover.h>
#include <eventpp/utilities/orderedqueuelist.h>
#include <eventpp/utilities/conditionalfunctor.h>
#include <eventpp/utilities/argumentadapter.h>
#include <eventpp/utilities/anyid.h>
#include <eventpp/utilities/anydata.h>
#undef private
#undef protected

// ---------------------------------------------------------------- instrumented threading policy
// An ordinary eventpp Threading policy whose members call vf_* hooks. In the engine every hook is a
// scheduling point; natively they drive the ucontext scheduler of vf_native.cpp.
struct VMutex {
	// the stores make a lock/unlock of a destroyed mutex a memory error (engine: use after free; native: ASan)
	// noinline: the policy's own bookkeeping must not look like eventpp code to the automatic scheduling points
	__attribute__((noinline)) void lock() { vf_mutex_lock(this); pad = 1; }
	__attribute__((noinline)) void unlock() { pad = 0; vf_mutex_unlock(this); }
	volatile char pad;
};

template <typename T>
struct VAtomic {
	VAtomic() noexcept = default;
	constexpr VAtomic(T v) noexcept : value(v) {}
	// each operation is one atomic step: a scheduling point (the hook) followed by plain code the engine never preempts
	// (noinline keeps it out of eventpp's functions, where plain accesses to shared objects are automatic scheduling points)
	__attribute__((noinline)) void store(T v, std::memory_order = std::memory_order_seq_cst) noexcept { vf_atomic_point(this); value = v; }
	__attribute__((noinline)) T load(std::memory_order = std::memory_order_seq_cst) const noexcept { vf_atomic_point(this); return value; }
	__attribute__((noinline)) T exchange(T v, std::memory_order = std::memory_order_seq_cst) noexcept { vf_atomic_point(this); T p = value; value = v; return p; }
	__attribute__((noinline)) T operator++() noexcept { vf_atomic_point(this); return ++value; }
	__attribute__((noinline)) T operator--() noexcept { vf_atomic_point(this); return --value; }
	T value;
};

// the relative timeout the library last handed to the condition variable, in nanoseconds (-1: none / an absolute deadline): "waitFor returns false
// only after its timeout" needs the library to wait at least as long as its caller asked for (time itself is a nondeterministic stub)
static long long g_vf_wait_ns = -1;
static void (*g_vf_on_timeout)() = nullptr;      // harness hook: called (with the mutex re-acquired) whenever a timed wait of the instrumented condition variable times out
static inline bool vf_cv_wait_for_h(const void * cv, const void * m) { bool r = vf_cv_wait_for(cv, m); if(! r && g_vf_on_timeout) g_vf_on_timeout(); return r; }
template <class Rep, class Period> static inline void vf_note_wait(const std::chrono::duration<Rep, Period> & d) { g_vf_wait_ns = (long long)std::chrono::duration_cast<std::chrono::nanoseconds>(d).count(); }
struct VCondVar {
	void notify_one() noexcept { vf_cv_notify_one(this); }
	void notify_all() noexcept { vf_cv_notify_all(this); }
	// exactly the loops the standard specifies for the predicate overloads
	template <class Lock, class Predicate>
	void wait(Lock & lock, Predicate pred) {
		while(! pred()) vf_cv_wait(this, lock.mutex());
	}
	template <class Lock, class Rep, class Period, class Predicate>
	bool wait_for(Lock & lock, const std::chrono::duration<Rep, Period> & d, Predicate pred) {
		vf_note_wait(d);
		while(! pred()) {
			if(! vf_cv_wait_for_h(this, lock.mutex())) return pred();
		}
		return true;
	}
	// the remaining std::condition_variable interface, so that code written against it compiles with this policy; the deadline
	// is "whenever the engine decides the timeout fires" (time is a nondeterministic stub)
	template <class Lock> void wait(Lock & lock) { vf_cv_wait(this, lock.mutex()); }
	template <class Lock, class Rep, class Period>
	std::cv_status wait_for(Lock & lock, const std::chrono::duration<Rep, Period> & d) { vf_note_wait(d); return vf_cv_wait_for_h(this, lock.mutex()) ? std::cv_status::no_timeout : std::cv_status::timeout; }
	template <class Lock, class Clock, class Duration>
	std::cv_status wait_until(Lock & lock, const std::chrono::time_point<Clock, Duration> &) { g_vf_wait_ns = -1; return vf_cv_wait_for_h(this, lock.mutex()) ? std::cv_status::no_timeout : std::cv_status::timeout; }
	template <class Lock, class Clock, class Duration, class Predicate>
	bool wait_until(Lock & lock, const std::chrono::time_point<Clock, Duration> &, Predicate pred) {
		g_vf_wait_ns = -1;
		while(! pred()) {
			if(! vf_cv_wait_for_h(this, lock.mutex())) return pred();
		}
		return true;
	}
	char pad;
};

struct VThreading {
	using Mutex = VMutex;
	template <typename T> using Atomic = VAtomic<T>;
	using ConditionVariable = VCondVar;
};

// mutex is observable (re-entrancy => deadlock violation) but atomics are plain: single-thread harnesses
struct VMutexOnlyThreading {
	using Mutex = VMutex;
	template <typename T> using Atomic = eventpp::SingleThreading::Atomic<T>;
	using ConditionVariable = eventpp::SingleThreading::ConditionVariable;
};

// ---------------------------------------------------------------- trace
struct TraceEntry { uint32_t id; uint32_t a; uint32_t b; };
#ifndef VF_TRACE_MAX
#define VF_TRACE_MAX 64
#endif
struct Trace {
	TraceEntry e[VF_TRACE_MAX];
	int n;
	void clear() { n = 0; }
	void add(uint32_t id, uint32_t a, uint32_t b) {
		if(n < VF_TRACE_MAX) { e[n].id = id; e[n].a = a; e[n].b = b; }
		++n;
	}
};

#endif
