#!/bin/sh
# tools/seedtest.sh <patch.diff> <check-id> [more check ids...]
# applies a seeded change to /repo (working tree only), runs the quick checks, and reverts it.
P="$1"; shift
cd /repo || exit 2
if ! git diff --quiet; then echo "REFUSING: /repo has uncommitted changes"; exit 2; fi
if ! git apply "$P" 2>/dev/null; then
  if ! git apply -3 "$P" 2>/dev/null; then echo "PATCH-DOES-NOT-APPLY $P"; git reset -q --hard HEAD; exit 3; fi
  git reset -q
fi
cd /verif
for id in "$@"; do
  ./check "$id" ${TIER:+--tier $TIER} 2>&1 | grep -E "^VIOLATION|^  run=|HOLDS|VIOLATED|INCONCLUSIVE|^PROBLEM" | cut -c1-300 | head -${LINES_MAX:-8}
done
git -C /repo checkout -- .
