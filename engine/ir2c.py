#!/usr/bin/env python3
"""LLVM-14 IR -> C translator (E-bmc path: heap-free leaf kernels for CBMC)."""
import re, sys, collections
from irparse import *
from irparse import T, I, V, CASTS, BINOPS, parse_module

# ---------------- C emission -----------------
def cident(n):
    return re.sub(r'[^A-Za-z0-9_]', lambda mo: '_%02x' % ord(mo.group(0)), n)

LIBC = {'memcpy','memmove','memset','memcmp','strlen','malloc','free','abort','memchr','strcmp'}

class Emitter:
    def __init__(self, m, opts):
        self.m = m; self.opts = opts
        self.tname = {}   # type key -> C typedef name
        self.tdefs = []   # typedef lines in order
        self.sdefs = []   # struct body definitions
        self.struct_done = set(); self.struct_inprog = set()
        self.out = []
        self.nondet_needed = {}

    def resolve(self, t):
        while t.k == 'named':
            r = self.m.types.get(t.a)
            if r is None: return t
            return t
        return t

    def cty(self, t):
        k = t.key()
        if k in self.tname: return self.tname[k]
        if t.k == 'int':
            n = t.a
            if n == 1: c = '_Bool'
            elif n <= 8: c = 'unsigned char'
            elif n <= 16: c = 'unsigned short'
            elif n <= 32: c = 'unsigned int'
            elif n <= 64: c = 'unsigned long'
            elif n <= 128: c = 'unsigned __int128'
            else: raise NotImplementedError(k)
            self.tname[k] = c; return c
        if t.k == 'void': self.tname[k] = 'void'; return 'void'
        if t.k in ('float','double'): self.tname[k] = t.k; return t.k
        if t.k in ('metadata','label','token'): self.tname[k]='int'; return 'int'
        name = 'T%d' % len(self.tname)
        self.tname[k] = name
        if t.k == 'ptr':
            e = t.a
            if e.k == 'func':
                ret = self.cty(e.a); ps = ', '.join(self.cty(p) for p in e.b)
                if e.c: ps = (ps + ', ...') if ps else ''
                elif not ps: ps = 'void'
                self.tdefs.append('typedef %s (*%s)(%s);' % (ret, name, ps))
            else:
                ec = self.cty(e) if not (e.k == 'int' and e.a == 8) else 'unsigned char'
                if e.k == 'void': ec = 'void'
                self.tdefs.append('typedef %s *%s;' % (ec, name))
        elif t.k == 'arr':
            ec = self.cty(t.b)
            self.need_complete(t.b)
            n = t.a
            self.tdefs.append('typedef struct %s_s { %s e[%d]; } %s;' % (name, ec, max(n,1), name) if False else 'typedef %s %s[%d];' % (ec, name, max(n, 1)))
        elif t.k == 'named':
            self.tdefs.append('typedef struct S_%s %s;' % (cident(t.a), name))
        elif t.k == 'struct':
            self.tdefs.append('typedef struct S_%s %s;' % (name, name))
        elif t.k == 'func':
            ret = self.cty(t.a); ps = ', '.join(self.cty(p) for p in t.b)
            if t.c: ps = (ps + ', ...') if ps else ''
            elif not ps: ps = 'void'
            self.tdefs.append('typedef %s %s(%s);' % (ret, name, ps))
        else:
            raise NotImplementedError(k)
        return name

    def need_complete(self, t):
        """ensure struct bodies contained by value are emitted (in order)"""
        if t.k == 'arr': self.need_complete(t.b); return
        if t.k == 'named':
            if t.a in self.struct_done: return
            body = self.m.types.get(t.a)
            if body is None:
                return
            if t.a in self.struct_inprog: raise RuntimeError('recursive struct by value ' + t.a)
            self.struct_inprog.add(t.a)
            self.emit_struct('S_' + cident(t.a), body)
            self.struct_done.add(t.a)
            return
        if t.k == 'struct':
            k = t.key()
            if k in self.struct_done: return
            self.struct_done.add(k)
            self.emit_struct('S_' + self.cty(t), t)

    def emit_struct(self, sname, body):
        fs = []
        for i, ft in enumerate(body.a):
            self.need_complete(ft)
            fs.append('  %s f%d;' % (self.cty(ft), i))
        if not fs: fs = ['  char _empty;']
        packed = ' __attribute__((packed))' if body.b else ''
        self.sdefs.append('struct %s {\n%s\n}%s;' % (sname, '\n'.join(fs), packed))

    # ----- values
    def val(self, v, ctx):
        t = v.t
        if v.k == 'local': return ctx.local(v.a)
        if v.k == 'global':
            if v.a in self.m.funcs:
                return cident(v.a) if v.a not in LIBC else v.a
            return '(&G_%s)' % cident(v.a)
        if v.k == 'int':
            n = v.a
            if t is not None and t.k == 'int':
                bits = t.a
                n &= (1 << bits) - 1
                if bits == 1: return '1' if n else '0'
                if bits > 64: return '((unsigned __int128)%dUL)' % n
                return '((%s)%dUL)' % (self.cty(t), n)
            return str(n)
        if v.k == 'null': return '((%s)0)' % self.cty(t)
        if v.k == 'zero':
            return self.zero(t)
        if v.k == 'undef':
            return self.undef(t)
        if v.k == 'cast':
            return self.cast(v.a, v.b, t, self.val(v.b, ctx))
        if v.k == 'gep':
            return self.gep(v.a, v.b, v.c, ctx)
        if v.k == 'agg':
            self.need_complete(t)
            return '(%s){%s}' % (self.cty(t), ', '.join(self.val(e, ctx) for e in v.a)) if t.k != 'arr' else '{%s}' % ', '.join(self.val(e, ctx) for e in v.a)
        if v.k == 'cstr':
            bs = self.cstr_bytes(v.a)
            return '{%s}' % ', '.join(str(b) for b in bs)
        if v.k == 'fp': return v.a
        raise NotImplementedError(v.k)

    def cstr_bytes(self, s):
        out = []; i = 0
        while i < len(s):
            if s[i] == '\\': out.append(int(s[i+1:i+3], 16)); i += 3
            else: out.append(ord(s[i])); i += 1
        return out

    def zero(self, t):
        if t.k in ('int',): return '((%s)0)' % self.cty(t)
        if t.k == 'ptr': return '((%s)0)' % self.cty(t)
        self.need_complete(t)
        if t.k == 'arr': return '{0}'
        return '(%s){0}' % self.cty(t)

    def undef(self, t):
        if t.k in ('int','ptr'):
            c = self.cty(t); fn = 'nondet_' + re.sub(r'\W', '_', c)
            self.nondet_needed[fn] = c
            return fn + '()'
        self.need_complete(t)
        c = self.cty(t); fn = 'nondet_' + c
        self.nondet_needed[fn] = c
        return fn + '()'

    def cast(self, op, sv, dt, sc):
        st = sv.t
        if op in ('bitcast','addrspacecast'):
            if st.k == 'ptr' and dt.k == 'ptr':
                return '((%s)%s)' % (self.cty(dt), sc)
            raise NotImplementedError('bitcast %s -> %s' % (st, dt))
        if op == 'trunc' or op == 'zext':
            if dt.a == 1: return '((_Bool)((%s) & 1))' % sc
            if op == 'trunc' and dt.a not in (8,16,32,64): return '((%s)((%s) & %dUL))' % (self.cty(dt), sc, (1<<dt.a)-1)
            return '((%s)%s)' % (self.cty(dt), sc)
        if op == 'sext':
            return '((%s)%s)' % (self.cty(dt), self.signed(st, sc))
        if op == 'ptrtoint': return '((%s)(unsigned long)%s)' % (self.cty(dt), sc)
        if op == 'inttoptr': return '((%s)(unsigned long)%s)' % (self.cty(dt), sc)
        raise NotImplementedError(op)

    def signed(self, t, c):
        n = t.a
        if n == 1: return '((%s) ? -1 : 0)' % c
        s = {8:'signed char',16:'short',32:'int',64:'long'}[n]
        return '((%s)%s)' % (s, c)

    def gep(self, bt, p, idx, ctx):
        pc = self.val(p, ctx)
        cur = bt
        self.need_complete(bt)
        first = idx[0]
        if first.k == 'int' and first.a == 0: e = '(*%s)' % pc
        else: e = '%s[%s]' % (pc, self.idx(first, ctx))
        for ix in idx[1:]:
            r = cur
            if r.k == 'named': r = self.m.types[r.a]
            if r.k == 'struct':
                assert ix.k == 'int'; e += '.f%d' % ix.a; cur = r.a[ix.a]
            elif r.k == 'arr':
                e += '[%s]' % self.idx(ix, ctx); cur = r.b
            else: raise NotImplementedError('gep into ' + str(r))
        return '(&%s)' % e

    def idx(self, v, ctx):
        if v.k == 'int':
            n = v.a
            return str(n)
        return '(long)' + self.signed(v.t, self.val(v, ctx))

    # ----- functions
    def proto(self, f, name=None):
        ret = self.cty(f.ret)
        ps = ', '.join('%s %s' % (self.cty(pt), 'p_' + cident(pn)) for pt, pn in f.params)
        if f.va: ps = (ps + ', ...') if ps else ''
        elif not ps: ps = 'void'
        return '%s %s(%s)' % (ret, name or cident(f.name), ps)

    def emit(self):
        m = self.m
        body = []
        for f in m.funcs.values():
            if f.name.startswith('llvm.'): continue
            if f.name in LIBC: continue
            for pt, _ in f.params: self.cty(pt)
            self.cty(f.ret)
        # globals
        gl = []
        for name, (ty, init, const) in m.globals.items():
            if name.startswith('llvm.'): continue
            self.need_complete(ty)
            ct = self.cty(ty)
            if init is None:
                gl.append('extern %s G_%s;' % (ct, cident(name)))
        gdefs = []
        for name, (ty, init, const) in m.globals.items():
            if name.startswith('llvm.') or init is None: continue
            ct = self.cty(ty)
            gl.append('%s G_%s;' % (ct, cident(name)))
        protos = []
        for f in m.funcs.values():
            if f.name.startswith('llvm.') or f.name in LIBC: continue
            protos.append(self.proto(f) + ';')
        fbodies = []
        for f in m.funcs.values():
            if f.defined: fbodies.append(self.emit_func(f))
        for name, (ty, init, const) in m.globals.items():
            if name.startswith('llvm.') or init is None: continue
            ct = self.cty(ty)
            class G:
                def local(s, n): raise RuntimeError
            iv = self.val(init, G())
            if iv.startswith('(%s){' % ct): iv = iv[len(ct)+2:]
            gdefs.append('%s G_%s = %s;' % (ct, cident(name), iv))
        # ensure all struct types used via pointer only also get bodies (for field access)
        for name, body_t in m.types.items():
            if body_t is not None and name not in self.struct_done and ('%'+name) in self.tname:
                self.need_complete(T('named', name))
        out = ['#include <stddef.h>', '#include <string.h>', '#include <stdlib.h>', '/* generated by ir2c prototype */']
        # typedef lines may reference struct tags before definition: fine (pointers). arrays of structs need body first:
        # emit forward typedefs for structs, then struct bodies interleaved... simple approach: all typedefs that are
        # not arrays first, then struct bodies and array typedefs in recorded order.
        out += self.order_types()
        for fn, c in self.nondet_needed.items(): out.append('%s %s(void);' % (c, fn))
        out += gl + protos + gdefs + fbodies
        return '\n'.join(out) + '\n'

    def order_types(self):
        # Re-run emission in dependency order: we recorded tdefs (typedefs) and sdefs (struct bodies) separately.
        # Array typedefs need element completeness; struct bodies need field typedefs. Emit: non-array typedefs,
        # then iterate struct bodies/array typedefs by dependency using a simple fixpoint on textual deps.
        non_arr = [d for d in self.tdefs if not re.search(r'\[\d+\];$', d)]
        arr = [d for d in self.tdefs if re.search(r'\[\d+\];$', d)]
        items = []  # (defines, needs(set of names needing completeness), text)
        for d in arr:
            mo = re.match(r'typedef (.+?) (T\d+)\[(\d+)\];', d)
            items.append((mo.group(2), {mo.group(1)}, d))
        tag2t = {}
        for d in non_arr:
            mo = re.match(r'typedef struct (S_\w+) (T\d+);', d)
            if mo: tag2t[mo.group(1)] = mo.group(2)
        for sd in self.sdefs:
            mo = re.match(r'struct (S_\w+) \{\n(.*)\n\}', sd, re.S)
            tag = mo.group(1); needs = set()
            for fl in mo.group(2).split('\n'):
                ft = fl.strip().rsplit(' ', 1)[0]
                needs.add(ft)
            items.append((tag2t.get(tag, tag), needs, sd))
        complete = set(['_Bool','unsigned char','unsigned short','unsigned int','unsigned long','unsigned __int128','char','float','double','int'])
        # pointer typedefs & function pointer typedefs are complete
        for d in non_arr:
            mo = re.match(r'typedef (.+?) \*?\(?\*?(T\d+)\)?', d)
            if not re.match(r'typedef struct S_\w+ T\d+;', d) :
                mo = re.search(r'(T\d+)(\)\(.*\))?;$', d) or re.search(r'\*(T\d+);$', d)
                if mo: complete.add(mo.group(1))
        out = list(non_arr); pending = items
        while pending:
            prog = False; rest = []
            for (nm, needs, text) in pending:
                if all(n in complete for n in needs):
                    out.append(text); complete.add(nm); prog = True
                else: rest.append((nm, needs, text))
            if not prog:
                raise RuntimeError('type ordering stuck: %r' % [(n, [x for x in nd if x not in complete]) for n, nd, _ in rest][:5])
            pending = rest
        return out

    def emit_func(self, f):
        em = self
        class Ctx:
            def __init__(s): s.types = {}
            def local(s, n):
                return 'v_' + cident(n)
        ctx = Ctx()
        params = {pn for _, pn in f.params}
        decls = []; lines = []
        # collect result types
        vt = {}
        for pt, pn in f.params: vt[pn] = pt
        for bn, blk in f.blocks.items():
            for ins in blk:
                if ins.res is None: continue
                if ins.op == 'load': t = ins.ty
                elif ins.op == 'getelementptr': t = self.gep_type(ins.x, ins.ops[1:])
                elif ins.op == 'alloca': t = T('ptr', ins.x)
                elif ins.op == 'extractvalue': t = self.ev_type(ins.ops[0].t, ins.x)
                elif ins.op in ('call','invoke'): t = ins.ty
                else: t = ins.ty
                vt[ins.res] = t
        for pt, pn in f.params:
            decls.append('  %s v_%s = p_%s;' % (self.cty(pt), cident(pn), cident(pn)))
        for n, t in vt.items():
            if n in params: continue
            self.need_complete(t) if t.k in ('struct','named','arr') else None
            decls.append('  %s v_%s;' % (self.cty(t), cident(n)))
        phis = {}  # block -> list of phi insts
        for bn, blk in f.blocks.items(): phis[bn] = [i for i in blk if i.op == 'phi']
        def jump(frm, to):
            ps = phis[to]
            if not ps: return 'goto L_%s;' % cident(to)
            s = '{ '
            tmps = []
            for k, p in enumerate(ps):
                v = [v for (v, lb) in p.x if lb == frm][0]
                s += '%s t%d = %s; ' % (self.cty(p.ty), k, self.val(v, ctx))
            for k, p in enumerate(ps):
                s += 'v_%s = t%d; ' % (cident(p.res), k)
            return s + 'goto L_%s; }' % cident(to)
        for bn, blk in f.blocks.items():
            lines.append('L_%s: ;' % cident(bn))
            for ins in blk:
                c = self.emit_inst(f, ins, ctx, jump, bn, decls)
                if c: lines.append('  ' + c)
        return self.proto(f) + '\n{\n' + '\n'.join(decls) + '\n' + '\n'.join(lines) + '\n}\n'

    def gep_type(self, bt, idx):
        cur = bt
        for ix in idx[1:]:
            r = cur
            if r.k == 'named': r = self.m.types[r.a]
            if r.k == 'struct': cur = r.a[ix.a]
            elif r.k == 'arr': cur = r.b
            else: raise NotImplementedError
        return T('ptr', cur)

    def ev_type(self, t, idx):
        cur = t
        for i in idx:
            r = cur
            if r.k == 'named': r = self.m.types[r.a]
            if r.k == 'struct': cur = r.a[i]
            elif r.k == 'arr': cur = r.b
        return cur

    def emit_inst(self, f, ins, ctx, jump, bn, decls):
        op = ins.op; R = ('v_%s = ' % cident(ins.res)) if ins.res is not None else ''
        val = lambda v: self.val(v, ctx)
        if op == 'phi': return None
        if op == 'alloca':
            self.need_complete(ins.x)
            decls.append('  %s a_%s;' % (self.cty(ins.x), cident(ins.res)))
            return '%s&a_%s;' % (R, cident(ins.res))
        if op == 'load': return '%s*%s;' % (R, val(ins.ops[0]))
        if op == 'store': return '*%s = %s;' % (val(ins.ops[1]), val(ins.ops[0]))
        if op == 'getelementptr':
            return '%s%s;' % (R, self.gep(ins.x, ins.ops[0], ins.ops[1:], ctx))
        if op in CASTS: return '%s%s;' % (R, self.cast(op, ins.ops[0], ins.ty, val(ins.ops[0])))
        if op in BINOPS:
            a, b = val(ins.ops[0]), val(ins.ops[1]); t = ins.ty; ct = self.cty(t)
            if t.a == 1:
                o = {'add':'^','sub':'^','xor':'^','and':'&','or':'|','mul':'&'}[op]
                return '%s(_Bool)((%s %s %s) & 1);' % (R, a, o, b)
            pre = ''
            if op in ('add','sub','mul') and 'nsw' in ins.x and self.opts.get('nsw'):
                sa, sb = self.signed(t, a), self.signed(t, b)
                o = {'add':'+','sub':'-','mul':'*'}[op]
                pre = '__CPROVER_assert(!__CPROVER_overflow_%s(%s, %s), "nsw %s overflow (signed overflow UB)"); ' % ({'add':'plus','sub':'minus','mul':'mult'}[op], sa, sb, op)
            if op in ('add','sub','mul','and','or','xor','udiv','urem'):
                o = {'add':'+','sub':'-','mul':'*','and':'&','or':'|','xor':'^','udiv':'/','urem':'%'}[op]
                e = '(%s)(%s %s %s)' % (ct, a, o, b)
            elif op in ('sdiv','srem'):
                o = '/' if op == 'sdiv' else '%'
                e = '(%s)(%s %s %s)' % (ct, self.signed(t,a), o, self.signed(t,b))
            elif op == 'shl': e = '(%s)(%s << %s)' % (ct, a, b)
            elif op == 'lshr': e = '(%s)(%s >> %s)' % (ct, a, b)
            elif op == 'ashr': e = '(%s)(%s >> %s)' % (ct, self.signed(t,a), b)
            if t.a not in (8,16,32,64,128): e = '(%s)((%s) & %dUL)' % (ct, e, (1<<t.a)-1)
            return '%s%s%s;' % (pre, R, e)
        if op == 'icmp':
            a, b = val(ins.ops[0]), val(ins.ops[1]); p = ins.x; t = ins.ops[0].t
            if p in ('eq','ne'): return '%s(%s %s %s);' % (R, a, '==' if p=='eq' else '!=', b)
            o = {'ugt':'>','uge':'>=','ult':'<','ule':'<=','sgt':'>','sge':'>=','slt':'<','sle':'<='}[p]
            if t.k == 'ptr': return '%s((unsigned long)%s %s (unsigned long)%s);' % (R, a, o, b)
            if p[0] == 's': a, b = self.signed(t, a), self.signed(t, b)
            return '%s(%s %s %s);' % (R, a, o, b)
        if op == 'select': return '%s(%s ? %s : %s);' % (R, val(ins.ops[0]), val(ins.ops[1]), val(ins.ops[2]))
        if op == 'freeze': return '%s%s;' % (R, val(ins.ops[0]))
        if op == 'br':
            if len(ins.x) == 1: return jump(bn, ins.x[0])
            return 'if (%s) %s else %s' % (val(ins.ops[0]), jump(bn, ins.x[0]), jump(bn, ins.x[1]))
        if op == 'switch':
            d, cases = ins.x
            s = 'switch (%s) { ' % val(ins.ops[0])
            for cv, lb in cases: s += 'case %s: %s ' % (str(cv.a & ((1<<cv.t.a)-1)) + 'UL', jump(bn, lb))
            return s + 'default: %s }' % jump(bn, d)
        if op == 'ret':
            if ins.ops: return 'return %s;' % val(ins.ops[0])
            return 'return;'
        if op == 'unreachable': return '__CPROVER_assert(0, "unreachable reached"); __CPROVER_assume(0);'
        if op == 'extractvalue':
            return '%s%s%s;' % (R, val(ins.ops[0]), ''.join('.f%d' % i for i in ins.x))
        if op == 'insertvalue':
            return '%s%s; v_%s%s = %s;' % (R, val(ins.ops[0]), cident(ins.res), ''.join('.f%d' % i for i in ins.x), val(ins.ops[1]))
        if op == 'atomicrmw':
            p, v = val(ins.ops[0]), val(ins.ops[1]); ct = self.cty(ins.ty)
            o = {'add':'+','sub':'-','and':'&','or':'|','xor':'^'}.get(ins.x)
            if ins.x == 'xchg': upd = v
            else: upd = '(%s)(*%s %s %s)' % (ct, p, o, v)
            return '{ %s old_ = *%s; *%s = %s; %sold_; }' % (ct, p, p, upd if ins.x == 'xchg' else '(%s)(old_ %s %s)' % (ct, o, v), R)
        if op == 'cmpxchg':
            p, c, n = (val(x) for x in ins.ops); self.need_complete(ins.ty); st = self.cty(ins.ty); ct = self.cty(ins.ops[1].t)
            return '{ %s old_ = *%s; _Bool ok_ = (old_ == %s); if (ok_) *%s = %s; v_%s.f0 = old_; v_%s.f1 = ok_; }' % (ct, p, c, p, n, cident(ins.res), cident(ins.res))
        if op == 'fence': return None
        if op in ('call','invoke'):
            return self.emit_call(f, ins, ctx, jump, bn)
        if op == 'landingpad': return None
        if op == 'resume': return 'return%s;' % ('' if f.ret.k == 'void' else ' ' + self.undef(f.ret))
        raise NotImplementedError(op)

    def collect_fptrs(self):
        m = self.m
        self.vt_slots = collections.defaultdict(list)   # slot -> [func names]
        self.addr_taken = set()
        def walk(v, invt):
            if v is None: return
            if v.k == 'global' and v.a in m.funcs: 
                if not invt: self.addr_taken.add(v.a)
                return v.a
            if v.k == 'cast': return walk(v.b, invt)
            if v.k == 'gep': walk(v.b, invt); return None
            if v.k == 'agg':
                for e in v.a: walk(e, invt)
            return None
        for name, (ty, init, const) in m.globals.items():
            if init is None: continue
            if name.startswith('_ZTV') and init.k == 'agg':
                for sub in init.a:
                    if sub.k != 'agg': continue
                    for i, e in enumerate(sub.a):
                        fn = walk(e, True)
                        if fn and i >= 2 and fn != '__cxa_pure_virtual': self.vt_slots[i-2].append(fn)
            else: walk(init, False)
        for f in m.funcs.values():
            if not f.defined: continue
            for blk in f.blocks.values():
                for ins in blk:
                    ops = list(ins.ops)
                    if ins.op == 'phi': ops = [v for v, _ in ins.x]
                    for o in ops: walk(o, False)
        self.defs = {}
        for f in m.funcs.values():
            if not f.defined: continue
            d = {}
            for blk in f.blocks.values():
                for ins in blk:
                    if ins.res is not None: d[ins.res] = ins
            self.defs[f.name] = d

    def candidates(self, f, cal, fty):
        if not hasattr(self, 'vt_slots'): self.collect_fptrs()
        d = self.defs[f.name]
        if cal.k == 'local' and cal.a in d and d[cal.a].op == 'load':
            p = d[cal.a].ops[0]
            if p.k == 'local' and p.a in d:
                pi = d[p.a]
                slot = None
                if pi.op == 'load': slot = 0
                elif pi.op == 'getelementptr' and len(pi.ops) == 2 and pi.ops[1].k == 'int' and pi.ops[0].k == 'local' and pi.ops[0].a in d and d[pi.ops[0].a].op == 'load':
                    slot = pi.ops[1].a
                if slot is not None and self.vt_slots.get(slot):
                    out = []
                    for n in self.vt_slots[slot]:
                        if n not in out: out.append(n)
                    return out
        out = []
        for n in sorted(self.addr_taken):
            g = self.m.funcs[n]
            k = T('func', g.ret, [pt for pt, _ in g.params], g.va).key()
            if k == fty.key(): out.append(n)
        return out

    def emit_call(self, f, ins, ctx, jump, bn):
        val = lambda v: self.val(v, ctx)
        cal = ins.x['callee']; R = ('v_%s = ' % cident(ins.res)) if ins.res is not None else ''
        args = [val(a) for a in ins.ops]
        tail = ''
        if ins.op == 'invoke':
            tail = ' if (vf_exc_pending) %s else %s' % (jump(bn, ins.x['unwind']), jump(bn, ins.x['normal']))
        if cal.k == 'global':
            n = cal.a
            if n.startswith('llvm.'):
                if n.startswith('llvm.lifetime') or n.startswith('llvm.experimental.noalias') or n.startswith('llvm.assume') or n.startswith('llvm.dbg') or n.startswith('llvm.invariant'):
                    return None
                if n.startswith('llvm.memcpy') or n.startswith('llvm.memmove'):
                    return '%s((void*)%s, (const void*)%s, %s);' % ('memcpy' if 'memcpy' in n else 'memmove', args[0], args[1], args[2])
                if n.startswith('llvm.memset'): return 'memset((void*)%s, %s, %s);' % (args[0], args[1], args[2])
                if n == 'llvm.trap': return '__CPROVER_assert(0, "llvm.trap"); __CPROVER_assume(0);'
                if n.startswith('llvm.expect'): return '%s%s;' % (R, args[0])
                if n.startswith('llvm.umax'): return '%s(%s > %s ? %s : %s);' % (R, args[0], args[1], args[0], args[1])
                if n.startswith('llvm.umin'): return '%s(%s < %s ? %s : %s);' % (R, args[0], args[1], args[0], args[1])
                if n.startswith('llvm.smax') or n.startswith('llvm.smin'):
                    t = ins.ops[0].t; a, b = self.signed(t, args[0]), self.signed(t, args[1]); o = '>' if 'smax' in n else '<'
                    return '%s(%s %s %s ? %s : %s);' % (R, a, o, b, args[0], args[1])
                if n.startswith('llvm.is.constant'): return '%s0;' % R
                raise NotImplementedError('intrinsic ' + n)
            callee_f = self.m.funcs.get(n)
            name = cident(n) if n not in LIBC else n
            if n in LIBC:
                return '%s(%s)%s(%s);%s' % (R, self.cty(ins.ty), name, ', '.join('(void*)' + a if ins.ops[i].t.k == 'ptr' else a for i, a in enumerate(args)), tail) if ins.res is not None else '%s(%s);%s' % (name, ', '.join('(void*)' + a if ins.ops[i].t.k == 'ptr' else a for i, a in enumerate(args)), tail)
            # cast args to declared param types when they differ (constant-expression-cast callee excluded)
            if callee_f is not None:
                cargs = []
                for i, a in enumerate(args):
                    if i < len(callee_f.params) and callee_f.params[i][0].key() != ins.ops[i].t.key():
                        a = '((%s)%s)' % (self.cty(callee_f.params[i][0]), a)
                    cargs.append(a)
                args = cargs
            s = '%s%s(%s);' % (R, name, ', '.join(args))
        else:
            # indirect: callee is a local value or a cast constant expr
            if cal.k == 'local': fp = ctx.local(cal.a)
            else: fp = self.val(cal, ctx)
            fnty = T('ptr', T('func', ins.ty, [a.t for a in ins.ops], False))
            cands = self.candidates(f, cal, fnty.a)
            parts = []
            for cn in cands:
                g = self.m.funcs[cn]
                cargs = []
                for i, a in enumerate(args):
                    if i < len(g.params) and g.params[i][0].key() != ins.ops[i].t.key(): a = '((%s)%s)' % (self.cty(g.params[i][0]), a)
                    cargs.append(a)
                rc = '' if (ins.res is None or g.ret.key() == ins.ty.key()) else '(%s)' % self.cty(ins.ty)
                parts.append('if ((void*)%s == (void*)%s) { %s%s%s(%s); }' % (fp, cident(cn), R, rc, cident(cn), ', '.join(cargs)))
            s = ' else '.join(parts) + (' else ' if parts else '') + '{ __CPROVER_assert(0, "indirect call: target outside candidate set"); __CPROVER_assume(0); }'
        if self.opts.get('exc') and ins.op == 'call' and 'nounwind' not in ins.x['attrs'] and not (cal.k == 'global' and 'nounwind' in (self.m.funcs.get(cal.a).attrs if self.m.funcs.get(cal.a) else set())):
            s += ' if (vf_exc_pending) return%s;' % ('' if f.ret.k == 'void' else ' ' + self.undef(f.ret))
        return s + tail

def main():
    import argparse
    ap = argparse.ArgumentParser(); ap.add_argument('ll'); ap.add_argument('-o', default='-'); ap.add_argument('--nsw', action='store_true'); ap.add_argument('--exc', action='store_true')
    a = ap.parse_args()
    m = parse_module(open(a.ll).read())
    em = Emitter(m, {'nsw': a.nsw, 'exc': a.exc})
    c = em.emit()
    if a.o == '-': sys.stdout.write(c)
    else: open(a.o, 'w').write(c)

if __name__ == '__main__': main()
