// cl_threads_fault.cpp -- C09 x C03: a failed addition (the callback's copy constructor throws, or the node cannot be allocated) in one
// thread while another thread adds to the same list. The failed call leaves the list exactly as it was *for everybody*: every callback that
// was added successfully -- before, concurrently or afterwards -- is invoked by the next invocation, exactly once.
// Lowered with -fexceptions, thread mode, instrumented policy (mutex and atomics are scheduling points).
#include "common.h"

#ifndef DISP
#define DISP 0
#endif

struct VerifFault { int kind; };
static bool g_fired = false;
static inline void fault_point(int kind) { if(vf_fault(kind)) { g_fired = true; throw VerifFault{kind}; } }

struct G;
static G * g;
struct FCb {
	uint32_t id; bool armed;
	FCb(uint32_t i, bool a) : id(i), armed(a) {}
	FCb(const FCb & o) : id(o.id), armed(o.armed) { if(armed) fault_point(3); }
	FCb & operator=(const FCb &) = default;
	void operator()(uint32_t) const;
	bool operator==(const FCb & o) const { return id == o.id; }
};
struct Pol { using Threading = VThreading; using Callback = FCb; };
#if DISP
using T = eventpp::EventDispatcher<int, void(uint32_t), Pol>;
#define ADD(cb) g->t.appendListener(1, cb)
#define PRE(cb) g->t.prependListener(1, cb)
#define RUN(a) g->t.dispatch(1, a)
#else
using T = eventpp::CallbackList<void(uint32_t), Pol>;
#define ADD(cb) g->t.append(cb)
#define PRE(cb) g->t.prepend(cb)
#define RUN(a) g->t(a)
#endif
struct G { T t; uint32_t seen[16]; int nseen; bool added[4]; };
void FCb::operator()(uint32_t) const { if(g->nseen < 16) g->seen[g->nseen] = id; g->nseen++; }

enum { COV_FAILED_ADD = 0, COV_BOTH_ADDED, COV_N };

static void faulty(void *)
{
	// the addition that may fail (F = 1: at most one of its fault points fires)
	vf_faults_enable(1);
	try { FCb cb(1, true); if(vf_choose(2)) ADD(cb); else PRE(cb); g->added[1] = true; }
	catch(const VerifFault &) { g->added[1] = false; }
	vf_faults_enable(0);
}
static void other(void *)
{
	FCb cb(2, false); ADD(cb); g->added[2] = true;
}

static int count(uint32_t id) { int c = 0; for(int i = 0; i < g->nseen && i < 16; i++) if(g->seen[i] == id) c++; return c; }

extern "C" void harness()
{
	g = new G(); g->nseen = 0; for(int i = 0; i < 4; i++) g->added[i] = false;
	{ FCb cb0(9, false); ADD(cb0); }
	vf_spawn(faulty, nullptr);
	vf_spawn(other, nullptr);
	int dl = vf_join_all();
	vf_assert(dl == 0, 730);
	vf_assert(g->added[2], 731);
	// the very next invocation calls everything that was added successfully, once, and nothing else
	g->nseen = 0; RUN(0u);
	vf_assert(count(9) == 1, 732);
	vf_assert(count(2) == 1, 733);
	vf_assert(count(1) == (g->added[1] ? 1 : 0), 734);
	vf_assert(g->nseen == 2 + (g->added[1] ? 1 : 0), 735);
	// and so does the next one after a further addition
	{ FCb cb3(3, false); ADD(cb3); }
	g->nseen = 0; RUN(0u);
	vf_assert(count(9) == 1 && count(2) == 1 && count(3) == 1 && count(1) == (g->added[1] ? 1 : 0), 736);
	vf_assert(g->seen[g->nseen - 1] == 3u, 737);
	if(! g->added[1]) vf_cover(COV_FAILED_ADD); else vf_cover(COV_BOTH_ADDED);
	vf_obs(1, (uint64_t)g->nseen);
	delete g; g = nullptr;
	vf_end();
}
