/* shared by the CBMC law harnesses: under CBMC the inputs are nondeterministic; natively (replay) they are read from NAME=VALUE arguments */
#ifndef VF_BMC_H
#define VF_BMC_H
#include <stdint.h>
#ifdef __CPROVER__
uint64_t nondet_u64(void); uint32_t nondet_u32(void);
#define IN64(name) uint64_t name = nondet_u64()
#define IN32(name) uint32_t name = nondet_u32()
#define ASSUME(c) __CPROVER_assume(c)
#define LAW(c, msg) __CPROVER_assert(c, msg)
#else
#include <stdio.h>
#include <stdlib.h>
#include <string.h>
extern int vf_argc; extern char ** vf_argv; extern int vf_failed;
static uint64_t vf_lookup(const char * name) { size_t n = strlen(name); for(int i = 1; i < vf_argc; i++) if(! strncmp(vf_argv[i], name, n) && vf_argv[i][n] == '=') return strtoull(vf_argv[i] + n + 1, 0, 0); return 0; }
#define IN64(name) uint64_t name = vf_lookup(#name)
#define IN32(name) uint32_t name = (uint32_t)vf_lookup(#name)
#define ASSUME(c) do { if(!(c)) { printf("ASSUME-FALSE %s\n", #c); exit(6); } } while(0)
#define LAW(c, msg) do { if(!(c)) { printf("LAW-FAIL %s\n", msg); vf_failed = 1; } } while(0)
#endif
#endif
