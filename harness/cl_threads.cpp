// cl_threads.cpp -- C03: two (or three) threads operate concurrently on one CallbackList / EventDispatcher.
//
// Initial list [A(1), B(2)], handles hA, hB shared by all threads. Every thread runs SS operations chosen by vf_choose:
//   append | prepend | insert-before hB | remove hB | remove hA | ownsHandle hB | empty | invoke (traversal)
// The schedule (which thread runs at every scheduling point: policy hooks and, with automatic points, every plain
// access from eventpp code to an object another thread touched) is explored by the engine with preemption bound P.
// Oracle: (1) linearizability -- some order of the calls that respects program order and real-time order reproduces,
// with the sequential reference model, every result and the final list order; (2) every traversal visits each callback
// that stayed in the list for its whole duration exactly once, none twice, in list order; (3) no deadlock / memory error.
#include "common.h"

#ifndef TT
#define TT 2
#endif
#ifndef SS
#define SS 2
#endif
#ifndef DISP
#define DISP 0
#endif
#ifndef INIT
#define INIT 2       // number of callbacks in the list before the threads start (A, B)
#endif
#define NOPS (TT * SS)
#define MAXN (3 + NOPS)
#define EV 7

struct Cb;
static void cb_run(uint32_t id);
struct Cb { uint32_t id; explicit Cb(uint32_t i) : id(i) {} void operator()(uint32_t) const { cb_run(id); } };
#ifndef THREADING
#define THREADING VThreading
#endif
#ifdef STDMAP
template <typename K_, typename V_> using OrdMap = std::map<K_, V_>;
struct Pol { using Threading = THREADING; using Callback = Cb; template <typename K_, typename V_> using Map = OrdMap<K_, V_>; };
struct PolH { using Threading = THREADING; template <typename K_, typename V_> using Map = OrdMap<K_, V_>; };
#else
struct Pol { using Threading = THREADING; using Callback = Cb; };
struct PolH { using Threading = THREADING; };
#endif
#if DISP == 2
// the heterogeneous dispatcher has its own copies of the lookup / registration code (and no ownsHandle)
using T = eventpp::HeterEventDispatcher<int, eventpp::HeterTuple<void(uint32_t), void()>, PolH>;
#elif DISP
using T = eventpp::EventDispatcher<int, void(uint32_t), Pol>;
#else
using T = eventpp::CallbackList<void(uint32_t), Pol>;
#endif
using Handle = T::Handle;

enum Op { O_APPEND, O_PREPEND, O_INSERT_B, O_REMOVE_B, O_REMOVE_A, O_OWNS_B, O_EMPTY, O_INVOKE, O_ADD_OTHER, O_COUNT };
static int g_nextOther = 9;      // events 5, 6 and 8 have listeners from the start (dispatchers with OTHERS); 9, 10, ... are registered by O_ADD_OTHER
struct Rec { int thread; int op; uint32_t id; int result; int tcall, tret; uint32_t seen[MAXN]; int nseen; };
struct G {
	T * t; Handle hA, hB; int ops[TT][SS]; Rec rec[NOPS + 1]; int nrec; int clock; int idx[TT];
	int curTraversal[TT + 1];        // per thread: index of the traversal record in progress, or -1
};
static G * g;

static void cb_run(uint32_t id)
{
	int me = vf_self();
	int r = g->curTraversal[me];
	if(r >= 0) { Rec & x = g->rec[r]; if(x.nseen < MAXN) x.seen[x.nseen] = id; x.nseen++; }
}

static Handle do_append(uint32_t id) {
#if DISP
	return g->t->appendListener(EV, Cb(id));
#else
	return g->t->append(Cb(id));
#endif
}
static void perform(int thread, int op, int k)
{
	int ri = g->nrec++;                      // the record index is taken atomically (no scheduling point in between)
	Rec & r = g->rec[ri];
	r.thread = thread; r.op = op; r.id = 10u * (uint32_t)(thread + 1) + (uint32_t)k; r.result = 1; r.nseen = 0;
	r.tcall = g->clock++;
	switch(op) {
#if DISP
	case O_APPEND: g->t->appendListener(EV, Cb(r.id)); break;
	case O_PREPEND: g->t->prependListener(EV, Cb(r.id)); break;
	case O_INSERT_B: g->t->insertListener(EV, Cb(r.id), g->hB); break;
	case O_REMOVE_B: r.result = g->t->removeListener(EV, g->hB); break;
	case O_REMOVE_A: r.result = g->t->removeListener(EV, g->hA); break;
#if DISP == 2
	case O_OWNS_B: r.op = O_ADD_OTHER; break;      // HeterEventDispatcher has no ownsHandle; OPSET 3 never draws it
#else
	case O_OWNS_B: r.result = g->t->ownsHandle(EV, g->hB); break;
#endif
	case O_EMPTY: r.result = ! g->t->hasAnyListener(EV); break;
	// a listener of an event nobody listened to before: the event map grows (tree rotation / rehash) while other threads look EV up
	case O_ADD_OTHER: { int e = g_nextOther++; g->t->appendListener(e, Cb(1000u + (uint32_t)e)); break; }
	default: g->curTraversal[thread] = ri; g->t->dispatch(EV, 0u); g->curTraversal[thread] = -1; break;
#else
	case O_APPEND: g->t->append(Cb(r.id)); break;
	case O_PREPEND: g->t->prepend(Cb(r.id)); break;
	case O_INSERT_B: g->t->insert(Cb(r.id), g->hB); break;
	case O_REMOVE_B: r.result = g->t->remove(g->hB); break;
	case O_REMOVE_A: r.result = g->t->remove(g->hA); break;
	case O_OWNS_B: r.result = g->t->ownsHandle(g->hB); break;
	case O_EMPTY: r.result = g->t->empty(); break;
	default: g->curTraversal[thread] = ri; (*g->t)(0u); g->curTraversal[thread] = -1; break;
#endif
	}
	r.tret = g->clock++;
}

static void worker(void * p)
{
	int me = *(int *)p;
	for(int k = 0; k < SS; k++) perform(me + 1, g->ops[me][k], k);
}

// ---- sequential reference model
struct M {
	uint32_t v[MAXN]; int n; bool aLive, bLive;
	int find(uint32_t id) const { for(int i = 0; i < n; i++) if(v[i] == id) return i; return -1; }
	void ins(int pos, uint32_t id) { for(int j = n; j > pos; j--) v[j] = v[j - 1]; v[pos] = id; n++; }
	void del(uint32_t id) { int p = find(id); for(int j = p; j < n - 1; j++) v[j] = v[j + 1]; n--; }
	int apply(const Rec & r) {
		switch(r.op) {
		case O_APPEND: ins(n, r.id); return 1;
		case O_PREPEND: ins(0, r.id); return 1;
		case O_INSERT_B: if(bLive) ins(find(2), r.id); else ins(n, r.id); return 1;
		case O_REMOVE_B: if(! bLive) return 0; del(2); bLive = false; return 1;
		case O_REMOVE_A: if(! aLive) return 0; del(1); aLive = false; return 1;
		case O_OWNS_B: return bLive ? 1 : 0;
		case O_EMPTY: return (n == 0 && DISP != 2) ? 1 : 0;      // the heterogeneous run keeps a listener of the other prototype on the event throughout
		default: return 1;
		}
	}
};

enum { COV_REMOVE_RACE = 0, COV_INSERT_REMOVE_RACE, COV_TRAVERSAL_DURING_MUTATION, COV_OVERLAP, COV_N };

static bool try_orders(int depth, int * order, bool * used, const uint32_t * finalv, int finaln)
{
	if(depth == g->nrec) {
		M m; m.n = INIT; m.v[0] = 1; m.v[1] = 2; m.aLive = INIT >= 1; m.bLive = INIT >= 2;
		for(int i = 0; i < g->nrec; i++) { const Rec & r = g->rec[order[i]]; if(m.apply(r) != r.result) return false; }
		m.ins(m.n, 99);                                        // the append made after the threads were joined
		if(m.n != finaln) return false;
		for(int i = 0; i < finaln; i++) if(m.v[i] != finalv[i]) return false;
		return true;
	}
	for(int c = 0; c < g->nrec; c++) {
		if(used[c]) continue;
		// c may come next only if every call that returned before c was called (real-time order; this also gives program order) is already placed
		bool ok = true;
		for(int o = 0; o < g->nrec; o++) if(! used[o] && o != c && g->rec[o].tret < g->rec[c].tcall) ok = false;
		if(! ok) continue;
		used[c] = true; order[depth] = c;
		if(try_orders(depth + 1, order, used, finalv, finaln)) return true;
		used[c] = false;
	}
	return false;
}

extern "C" void harness()
{
	g = new G(); g->t = new T();
	for(int i = 0; i <= TT; i++) g->curTraversal[i] = -1;
#if DISP && defined(OTHERS)
	g->t->appendListener(5, Cb(1005u)); g->t->appendListener(6, Cb(1006u));      // other events first, so that EV is not the root of an ordered map
#endif
#if DISP == 2
	// the main event exists from the start, with a listener of the OTHER prototype only: the per-prototype list the threads use is created by whoever comes first
	g->t->appendListener(EV, []() { cb_run(777u); });
#endif
	if(INIT >= 1) g->hA = do_append(1);
	if(INIT >= 2) g->hB = do_append(2);
#if defined(WRAPC) && ! DISP
	// C03 x C19: the list has seen almost 2^32 additions -- the next addition (or the one after) wraps the generation counter while the other thread runs
	{ uint32_t c0 = vf_nondet_u32(); vf_assume(c0 >= 0xffffffffu - 1u); g->t->currentCounter.value = c0; }
#endif
#if DISP && defined(OTHERS)
	g->t->appendListener(8, Cb(1008u));
#endif
#ifndef OPSET
#define OPSET 0
#endif
#if OPSET == 1
	static const int opset[] = { O_APPEND, O_PREPEND, O_INSERT_B, O_REMOVE_B, O_OWNS_B, O_INVOKE };
#elif OPSET == 2
	static const int opset[] = { O_APPEND, O_INSERT_B, O_REMOVE_B, O_INVOKE };
#elif OPSET == 3
	static const int opset[] = { O_APPEND, O_REMOVE_B, O_EMPTY, O_INVOKE, O_ADD_OTHER };      // dispatchers: lookups of EV against growth of the event map
#else
	static const int opset[] = { O_APPEND, O_PREPEND, O_INSERT_B, O_REMOVE_B, O_REMOVE_A, O_OWNS_B, O_EMPTY, O_INVOKE };
#endif
	for(int t = 0; t < TT; t++) for(int k = 0; k < SS; k++) g->ops[t][k] = opset[vf_choose(sizeof(opset) / sizeof(opset[0]))];
	// the threads are interchangeable: explore each unordered pair of programs once
	for(int t = 0; t + 1 < TT; t++) {
		int c = 0; for(int k = 0; k < SS && c == 0; k++) c = g->ops[t][k] - g->ops[t + 1][k];
		vf_assume(c <= 0);
	}
	for(int t = 0; t < TT; t++) { g->idx[t] = t; vf_spawn(worker, &g->idx[t]); }
	int dead = vf_join_all();
	vf_assert(dead == 0, 300);                                  // every call returns: no deadlock
	// ---- the content right after the join: every callback whose addition completed is reached by an invocation made NOW
	// (a generation counter that moved backwards would hide one until the next addition)
	uint32_t midv[MAXN]; int midn = 0;
	{
		int ri = g->nrec; g->rec[ri].nseen = 0; g->curTraversal[0] = ri;
#if DISP
		g->t->dispatch(EV, 0u);
#else
		(*g->t)(0u);
#endif
		g->curTraversal[0] = -1;
		midn = g->rec[ri].nseen;
		for(int i = 0; i < midn && i < MAXN; i++) { midv[i] = g->rec[ri].seen[i]; vf_obs(3, midv[i]); }
	}
	// ---- one more append after the join (a stale tail or head would lose a callback now), then the final content
	do_append(99);
	uint32_t finalv[MAXN]; int finaln = 0;
	{
		int ri = g->nrec; g->rec[ri].nseen = 0; g->curTraversal[0] = ri;
#if DISP
		g->t->dispatch(EV, 0u);
#else
		(*g->t)(0u);
#endif
		g->curTraversal[0] = -1;
		finaln = g->rec[ri].nseen; vf_assert(finaln <= MAXN, 301);
		for(int i = 0; i < finaln && i < MAXN; i++) { finalv[i] = g->rec[ri].seen[i]; vf_obs(1, finalv[i]); }
		for(int i = 0; i < finaln; i++) for(int j = i + 1; j < finaln; j++) vf_assert(finalv[i] != finalv[j], 302);   // nobody duplicated
		// the invocation before the extra append showed the same callbacks minus the new one
		vf_assert(midn == finaln - 1, 310);
		for(int i = 0; i < midn && i < MAXN; i++) vf_assert(midv[i] == finalv[i], 311);
	}
	// ---- (1) linearizability of the adding / removing / querying calls and of the final order
	{
		int order[NOPS]; bool used[NOPS]; for(int i = 0; i < NOPS; i++) used[i] = false;
		vf_assert(try_orders(0, order, used, finalv, finaln), 303);
	}
	// ---- (2) traversals
	int removesB = 0;
	for(int i = 0; i < g->nrec; i++) {
		const Rec & r = g->rec[i];
		if(r.op == O_REMOVE_B && r.result) removesB++;
		if(r.op != O_INVOKE) continue;
		// callbacks 1 (A) and 2 (B) stayed for the whole duration unless somebody's remove overlapped or preceded
		for(uint32_t id = 1; id <= INIT; id++) {
			bool removedEver = false, removedBefore = false;
			for(int j = 0; j < g->nrec; j++) {
				const Rec & q = g->rec[j];
				if((q.op == O_REMOVE_A && id == 1) || (q.op == O_REMOVE_B && id == 2)) { if(q.result) { removedEver = true; if(q.tret < r.tcall) removedBefore = true; } }
			}
			int cnt = 0; for(int k = 0; k < r.nseen && k < MAXN; k++) if(r.seen[k] == id) cnt++;
			vf_assert(cnt <= 1, 304);                               // no callback twice
			if(! removedEver) vf_assert(cnt == 1, 305);             // stayed for the whole duration: visited exactly once
			if(removedBefore) vf_assert(cnt == 0, 306);             // removed before the traversal began: never visited
		}
		for(int k = 0; k < r.nseen && k < MAXN; k++) for(int l = k + 1; l < r.nseen && l < MAXN; l++) vf_assert(r.seen[k] != r.seen[l], 307);
		// list order: elements that are also in the final list appear in the same relative order
		int last = -1;
		for(int k = 0; k < r.nseen && k < MAXN; k++) { int p = -1; for(int f = 0; f < finaln; f++) if(finalv[f] == r.seen[k]) p = f; if(p >= 0) { vf_assert(p > last, 308); last = p; } }
		for(int j = 0; j < g->nrec; j++) if(j != i && g->rec[j].op <= O_REMOVE_A && g->rec[j].tcall < r.tret && g->rec[j].tret > r.tcall) vf_cover(COV_TRAVERSAL_DURING_MUTATION);
	}
	vf_assert(removesB <= 1, 309);                                  // each callback is removed successfully at most once
	for(int i = 0; i < g->nrec; i++) for(int j = 0; j < g->nrec; j++) {
		const Rec & a = g->rec[i]; const Rec & b = g->rec[j];
		if(a.thread != b.thread && a.tcall < b.tret && b.tcall < a.tret) {
			vf_cover(COV_OVERLAP);
			if(a.op == O_REMOVE_B && b.op == O_REMOVE_B) vf_cover(COV_REMOVE_RACE);
			if(a.op == O_REMOVE_B && b.op == O_INSERT_B) vf_cover(COV_INSERT_REMOVE_RACE);
		}
	}
	g->hA = Handle(); g->hB = Handle();
	delete g->t; delete g; g = nullptr;
	vf_end();
}
