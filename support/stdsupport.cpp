// own implementations of the few libstdc++.so out-of-line functions the lowered code calls
#include <list>
#include <unordered_map>
namespace std { namespace __detail {
void _List_node_base::_M_hook(_List_node_base* const position) noexcept { this->_M_next = position; this->_M_prev = position->_M_prev; position->_M_prev->_M_next = this; position->_M_prev = this; }
void _List_node_base::_M_unhook() noexcept { _List_node_base* const n = this->_M_next; _List_node_base* const p = this->_M_prev; p->_M_next = n; n->_M_prev = p; }
void _List_node_base::_M_transfer(_List_node_base* const first, _List_node_base* const last) noexcept {
  if (this != last) { last->_M_prev->_M_next = this; first->_M_prev->_M_next = last; this->_M_prev->_M_next = first;
    _List_node_base* const tmp = this->_M_prev; this->_M_prev = last->_M_prev; last->_M_prev = first->_M_prev; first->_M_prev = tmp; } }
void _List_node_base::swap(_List_node_base& x, _List_node_base& y) noexcept {
  if (x._M_next != &x) { if (y._M_next != &y) { std::swap(x._M_next, y._M_next); std::swap(x._M_prev, y._M_prev); x._M_next->_M_prev = x._M_prev->_M_next = &x; y._M_next->_M_prev = y._M_prev->_M_next = &y; }
    else { y._M_next = x._M_next; y._M_prev = x._M_prev; y._M_next->_M_prev = y._M_prev->_M_next = &y; x._M_next = x._M_prev = &x; } }
  else if (y._M_next != &y) { x._M_next = y._M_next; x._M_prev = y._M_prev; x._M_next->_M_prev = x._M_prev->_M_next = &x; y._M_next = y._M_prev = &y; } }
// libstdc++'s prime rehash policy, integer-only (max_load_factor is 1.0 unless user code changes it; eventpp never does).
// Faithful to src/c++11/hashtable_c++0x.cc for that load factor, so that allocation counts match the real library
// (needed for native replay of fault-injection paths: every operator new is a fault point).
static const unsigned long vf_primes[] = { 2ul, 3ul, 5ul, 7ul, 11ul, 13ul, 17ul, 19ul, 23ul, 29ul, 31ul, 37ul, 41ul, 43ul, 47ul, 53ul, 59ul, 61ul, 67ul, 71ul, 73ul, 79ul,
	83ul, 89ul, 97ul, 103ul, 109ul, 113ul, 127ul, 137ul, 139ul, 149ul, 157ul, 167ul, 179ul, 193ul, 199ul, 211ul, 227ul, 241ul, 257ul, 277ul, 293ul, 313ul, 337ul, 359ul, 383ul,
	409ul, 439ul, 467ul, 503ul, 541ul, 577ul, 619ul, 661ul, 709ul, 761ul, 823ul, 887ul, 953ul, 1031ul, 1109ul, 1193ul, 1289ul, 1381ul, 1493ul, 1613ul, 1741ul, 1879ul, 2029ul };
std::size_t _Prime_rehash_policy::_M_next_bkt(std::size_t n) const {
	static const unsigned char fast_bkt[] = { 2, 2, 2, 3, 5, 5, 7, 7, 11, 11, 11, 11, 13, 13 };
	if (n < sizeof(fast_bkt)) {
		if (n == 0) return 1;
		_M_next_resize = fast_bkt[n];          // floor(fast_bkt[n] * 1.0)
		return fast_bkt[n];
	}
	std::size_t r = vf_primes[sizeof(vf_primes) / sizeof(vf_primes[0]) - 1];
	for (std::size_t i = 0; i < sizeof(vf_primes) / sizeof(vf_primes[0]); i++) if (vf_primes[i] >= n) { r = vf_primes[i]; break; }
	_M_next_resize = r;
	return r;
}
std::pair<bool, std::size_t> _Prime_rehash_policy::_M_need_rehash(std::size_t n_bkt, std::size_t n_elt, std::size_t n_ins) const {
	if (n_elt + n_ins > _M_next_resize) {
		std::size_t min_bkts = n_elt + n_ins;
		if (_M_next_resize == 0 && min_bkts < 11) min_bkts = 11;
		if (min_bkts >= n_bkt) {
			std::size_t want = min_bkts + 1; if (n_bkt * 2 > want) want = n_bkt * 2;
			return { true, _M_next_bkt(want) };
		}
		_M_next_resize = n_bkt;
		return { false, 0 };
	}
	return { false, 0 };
}
}}

// ---- red-black tree support (std::map / std::set): re-implementation of libstdc++'s tree.cc algorithms
#include <map>
namespace std {

static _Rb_tree_node_base * local_Rb_tree_increment(_Rb_tree_node_base * x) noexcept
{
	if(x->_M_right != 0) {
		x = x->_M_right;
		while(x->_M_left != 0) x = x->_M_left;
	}
	else {
		_Rb_tree_node_base * y = x->_M_parent;
		while(x == y->_M_right) { x = y; y = y->_M_parent; }
		if(x->_M_right != y) x = y;
	}
	return x;
}
_Rb_tree_node_base * _Rb_tree_increment(_Rb_tree_node_base * x) noexcept { return local_Rb_tree_increment(x); }
const _Rb_tree_node_base * _Rb_tree_increment(const _Rb_tree_node_base * x) noexcept { return local_Rb_tree_increment(const_cast<_Rb_tree_node_base *>(x)); }

static _Rb_tree_node_base * local_Rb_tree_decrement(_Rb_tree_node_base * x) noexcept
{
	if(x->_M_color == _S_red && x->_M_parent->_M_parent == x) x = x->_M_right;
	else if(x->_M_left != 0) {
		_Rb_tree_node_base * y = x->_M_left;
		while(y->_M_right != 0) y = y->_M_right;
		x = y;
	}
	else {
		_Rb_tree_node_base * y = x->_M_parent;
		while(x == y->_M_left) { x = y; y = y->_M_parent; }
		x = y;
	}
	return x;
}
_Rb_tree_node_base * _Rb_tree_decrement(_Rb_tree_node_base * x) noexcept { return local_Rb_tree_decrement(x); }
const _Rb_tree_node_base * _Rb_tree_decrement(const _Rb_tree_node_base * x) noexcept { return local_Rb_tree_decrement(const_cast<_Rb_tree_node_base *>(x)); }

static void local_Rb_tree_rotate_left(_Rb_tree_node_base * const x, _Rb_tree_node_base *& root)
{
	_Rb_tree_node_base * const y = x->_M_right;
	x->_M_right = y->_M_left;
	if(y->_M_left != 0) y->_M_left->_M_parent = x;
	y->_M_parent = x->_M_parent;
	if(x == root) root = y;
	else if(x == x->_M_parent->_M_left) x->_M_parent->_M_left = y;
	else x->_M_parent->_M_right = y;
	y->_M_left = x;
	x->_M_parent = y;
}
static void local_Rb_tree_rotate_right(_Rb_tree_node_base * const x, _Rb_tree_node_base *& root)
{
	_Rb_tree_node_base * const y = x->_M_left;
	x->_M_left = y->_M_right;
	if(y->_M_right != 0) y->_M_right->_M_parent = x;
	y->_M_parent = x->_M_parent;
	if(x == root) root = y;
	else if(x == x->_M_parent->_M_right) x->_M_parent->_M_right = y;
	else x->_M_parent->_M_left = y;
	y->_M_right = x;
	x->_M_parent = y;
}

void _Rb_tree_insert_and_rebalance(const bool insert_left, _Rb_tree_node_base * x, _Rb_tree_node_base * p, _Rb_tree_node_base & header) noexcept
{
	_Rb_tree_node_base *& root = header._M_parent;
	x->_M_parent = p; x->_M_left = 0; x->_M_right = 0; x->_M_color = _S_red;
	if(insert_left) {
		p->_M_left = x;
		if(p == &header) { header._M_parent = x; header._M_right = x; }
		else if(p == header._M_left) header._M_left = x;
	}
	else {
		p->_M_right = x;
		if(p == header._M_right) header._M_right = x;
	}
	while(x != root && x->_M_parent->_M_color == _S_red) {
		_Rb_tree_node_base * const xpp = x->_M_parent->_M_parent;
		if(x->_M_parent == xpp->_M_left) {
			_Rb_tree_node_base * const y = xpp->_M_right;
			if(y && y->_M_color == _S_red) { x->_M_parent->_M_color = _S_black; y->_M_color = _S_black; xpp->_M_color = _S_red; x = xpp; }
			else {
				if(x == x->_M_parent->_M_right) { x = x->_M_parent; local_Rb_tree_rotate_left(x, root); }
				x->_M_parent->_M_color = _S_black; xpp->_M_color = _S_red; local_Rb_tree_rotate_right(xpp, root);
			}
		}
		else {
			_Rb_tree_node_base * const y = xpp->_M_left;
			if(y && y->_M_color == _S_red) { x->_M_parent->_M_color = _S_black; y->_M_color = _S_black; xpp->_M_color = _S_red; x = xpp; }
			else {
				if(x == x->_M_parent->_M_left) { x = x->_M_parent; local_Rb_tree_rotate_right(x, root); }
				x->_M_parent->_M_color = _S_black; xpp->_M_color = _S_red; local_Rb_tree_rotate_left(xpp, root);
			}
		}
	}
	root->_M_color = _S_black;
}

_Rb_tree_node_base * _Rb_tree_rebalance_for_erase(_Rb_tree_node_base * const z, _Rb_tree_node_base & header) noexcept
{
	_Rb_tree_node_base *& root = header._M_parent;
	_Rb_tree_node_base *& leftmost = header._M_left;
	_Rb_tree_node_base *& rightmost = header._M_right;
	_Rb_tree_node_base * y = z; _Rb_tree_node_base * x = 0; _Rb_tree_node_base * x_parent = 0;
	if(y->_M_left == 0) x = y->_M_right;
	else if(y->_M_right == 0) x = y->_M_left;
	else { y = y->_M_right; while(y->_M_left != 0) y = y->_M_left; x = y->_M_right; }
	if(y != z) {
		z->_M_left->_M_parent = y; y->_M_left = z->_M_left;
		if(y != z->_M_right) {
			x_parent = y->_M_parent;
			if(x) x->_M_parent = y->_M_parent;
			y->_M_parent->_M_left = x;
			y->_M_right = z->_M_right; z->_M_right->_M_parent = y;
		}
		else x_parent = y;
		if(root == z) root = y;
		else if(z->_M_parent->_M_left == z) z->_M_parent->_M_left = y;
		else z->_M_parent->_M_right = y;
		y->_M_parent = z->_M_parent;
		std::swap(y->_M_color, z->_M_color);
		y = z;
	}
	else {
		x_parent = y->_M_parent;
		if(x) x->_M_parent = y->_M_parent;
		if(root == z) root = x;
		else if(z->_M_parent->_M_left == z) z->_M_parent->_M_left = x;
		else z->_M_parent->_M_right = x;
		if(leftmost == z) {
			if(z->_M_right == 0) leftmost = z->_M_parent;
			else { _Rb_tree_node_base * m = x; while(m->_M_left != 0) m = m->_M_left; leftmost = m; }
		}
		if(rightmost == z) {
			if(z->_M_left == 0) rightmost = z->_M_parent;
			else { _Rb_tree_node_base * m = x; while(m->_M_right != 0) m = m->_M_right; rightmost = m; }
		}
	}
	if(y->_M_color != _S_red) {
		while(x != root && (x == 0 || x->_M_color == _S_black)) {
			if(x == x_parent->_M_left) {
				_Rb_tree_node_base * w = x_parent->_M_right;
				if(w->_M_color == _S_red) { w->_M_color = _S_black; x_parent->_M_color = _S_red; local_Rb_tree_rotate_left(x_parent, root); w = x_parent->_M_right; }
				if((w->_M_left == 0 || w->_M_left->_M_color == _S_black) && (w->_M_right == 0 || w->_M_right->_M_color == _S_black)) {
					w->_M_color = _S_red; x = x_parent; x_parent = x_parent->_M_parent;
				}
				else {
					if(w->_M_right == 0 || w->_M_right->_M_color == _S_black) { w->_M_left->_M_color = _S_black; w->_M_color = _S_red; local_Rb_tree_rotate_right(w, root); w = x_parent->_M_right; }
					w->_M_color = x_parent->_M_color; x_parent->_M_color = _S_black;
					if(w->_M_right) w->_M_right->_M_color = _S_black;
					local_Rb_tree_rotate_left(x_parent, root);
					break;
				}
			}
			else {
				_Rb_tree_node_base * w = x_parent->_M_left;
				if(w->_M_color == _S_red) { w->_M_color = _S_black; x_parent->_M_color = _S_red; local_Rb_tree_rotate_right(x_parent, root); w = x_parent->_M_left; }
				if((w->_M_right == 0 || w->_M_right->_M_color == _S_black) && (w->_M_left == 0 || w->_M_left->_M_color == _S_black)) {
					w->_M_color = _S_red; x = x_parent; x_parent = x_parent->_M_parent;
				}
				else {
					if(w->_M_left == 0 || w->_M_left->_M_color == _S_black) { w->_M_right->_M_color = _S_black; w->_M_color = _S_red; local_Rb_tree_rotate_left(w, root); w = x_parent->_M_left; }
					w->_M_color = x_parent->_M_color; x_parent->_M_color = _S_black;
					if(w->_M_left) w->_M_left->_M_color = _S_black;
					local_Rb_tree_rotate_right(x_parent, root);
					break;
				}
			}
		}
		if(x) x->_M_color = _S_black;
	}
	return y;
}

} // namespace std

// ---- std::_Hash_bytes (hash of std::string keys in unordered_map): libstdc++'s 64-bit Murmur-style hash (hash_bytes.cc), integer-only
namespace std {
static inline size_t local_shift_mix(size_t v) { return v ^ (v >> 47); }
size_t _Hash_bytes(const void * ptr, size_t len, size_t seed)
{
	static const size_t mul = (((size_t)0xc6a4a793UL) << 32UL) + (size_t)0x5bd1e995UL;
	const unsigned char * const buf = static_cast<const unsigned char *>(ptr);
	const size_t len_aligned = len & ~(size_t)0x7;
	const unsigned char * const end = buf + len_aligned;
	size_t hash = seed ^ (len * mul);
	for(const unsigned char * p = buf; p != end; p += 8) {
		size_t w = 0;
		for(int i = 7; i >= 0; --i) w = (w << 8) + p[i];       // unaligned little-endian load, byte by byte
		const size_t data = local_shift_mix(w * mul) * mul;
		hash ^= data; hash *= mul;
	}
	if((len & 0x7) != 0) {
		size_t data = 0;
		for(int i = (int)(len & 0x7) - 1; i >= 0; --i) data = (data << 8) + end[i];
		hash ^= data; hash *= mul;
	}
	hash = local_shift_mix(hash) * mul;
	hash = local_shift_mix(hash);
	return hash;
}
}
