// heter.cpp -- C14: heterogeneous classes route by prototype and never confuse stored types.
// Prototype list (different sizes, non-trivial types):
//   P0 void()   P1 void(uint32_t)   P2 void(const Big &)   P3 void(Trk, uint32_t)
// Big owns a heap cell (deep copy), Trk is ledger-counted; both detect use of a wrong/destroyed object.
// OBJ: 0 HeterCallbackList  1 HeterEventDispatcher  2 HeterEventQueue
#include "common.h"

#ifndef KK
#define KK 3
#endif
#ifndef OBJ
#define OBJ 2
#endif
#define EV 9
#define MAXQ (KK + 2)
#define MAXL (KK + 4)

static int g_live_trk = 0, g_live_big = 0, g_bad = 0;
struct Trk {
	uint32_t v; uint32_t magic;
	explicit Trk(uint32_t x) : v(x), magic(0x7157u) { ++g_live_trk; }
	Trk(const Trk & o) : v(o.v), magic(0x7157u) { if(o.magic != 0x7157u) ++g_bad; ++g_live_trk; }
	Trk(Trk && o) noexcept : v(o.v), magic(0x7157u) { if(o.magic != 0x7157u) ++g_bad; ++g_live_trk; }
	Trk & operator=(const Trk & o) { if(o.magic != 0x7157u || magic != 0x7157u) ++g_bad; v = o.v; return *this; }
	~Trk() { if(magic != 0x7157u) ++g_bad; magic = 0xDEADu; --g_live_trk; }
};
struct Big {
	uint32_t tag; uint32_t * cell; uint32_t pad[6]; uint32_t magic;
	explicit Big(uint32_t x) : tag(x), cell(new uint32_t(x ^ 0x55u)), magic(0xB16u) { for(int i = 0; i < 6; i++) pad[i] = x + (uint32_t)i; ++g_live_big; }
	Big(const Big & o) : tag(o.tag), cell(new uint32_t(*o.cell)), magic(0xB16u) { if(o.magic != 0xB16u) ++g_bad; for(int i = 0; i < 6; i++) pad[i] = o.pad[i]; ++g_live_big; }
	Big & operator=(const Big &) = delete;
	~Big() { if(magic != 0xB16u) ++g_bad; magic = 0xDEADu; delete cell; --g_live_big; }
	bool intact(uint32_t x) const { return magic == 0xB16u && tag == x && *cell == (x ^ 0x55u) && pad[5] == x + 5u; }
};
using HT = eventpp::HeterTuple<void(), void(uint32_t), void(const Big &), void(Trk, uint32_t)>;
struct Pol { using Threading = VMutexOnlyThreading; };
#if OBJ == 0
using T = eventpp::HeterCallbackList<HT, Pol>;
#elif OBJ == 1
using T = eventpp::HeterEventDispatcher<int, HT, Pol>;
#else
using T = eventpp::HeterEventQueue<int, HT, Pol>;
#endif

struct TrEntry { int proto; uint32_t lid; uint32_t val; };
static TrEntry g_tr[64]; static int g_trn;
static void reentrant();
static void rec(int proto, uint32_t lid, uint32_t val) { if(g_trn < 64) { g_tr[g_trn].proto = proto; g_tr[g_trn].lid = lid; g_tr[g_trn].val = val; } g_trn++; reentrant(); }

struct QEv { int proto; uint32_t val; };
struct Model {
	uint32_t lis[4][MAXL]; int nl[4];               // listener ids per prototype, in order
	QEv q[MAXQ * 2]; int nq;
	int hproto[MAXL]; uint32_t hid[MAXL]; bool hlive[MAXL]; int nh;
};
struct G { T * t; Model m; T::Handle hs[MAXL]; uint32_t nextid; int predCalls; int predProtoMask; bool predOk; uint32_t acceptBit; int budget; bool inProcessing; unsigned nextconv; };
static G * g;

enum { COV_INVOKE_EACH = 0, COV_RECYCLE_OTHER_TYPE, COV_IF_SKIPS_FOREIGN, COV_IF_ANY_CONTINUES, COV_MIXED_QUEUE, COV_REENTRANT_ENQ, COV_INSERT_SAME_PROTO, COV_INSERT_OTHER_PROTO, COV_CONVERTED_ARG, COV_N };

static T::Handle add(int p, uint32_t id, bool front)
{
#if OBJ == 0
#define ADDL(cb) (front ? g->t->prepend(cb) : g->t->append(cb))
#else
#define ADDL(cb) (front ? g->t->prependListener(EV, cb) : g->t->appendListener(EV, cb))
#endif
	if(p == 0) return ADDL([id]() { rec(0, id, 0); });
	if(p == 1) return ADDL([id](uint32_t a) { rec(1, id, a); });
	if(p == 2) return ADDL([id](const Big & b) { rec(2, id, b.intact(b.tag) ? b.tag : 0xbadbad00u); });
	return ADDL([id](Trk t, uint32_t a) { rec(3, id, (t.magic == 0x7157u && t.v == (a ^ 0x33u)) ? a : 0xbadbad01u); });
}
// insert a callback of prototype p before the callback handle `before`: immediately before it when that handle is live and of the
// same prototype, at the back otherwise
static T::Handle add_before(int p, uint32_t id, const T::Handle & before)
{
#if OBJ == 0
#define INSL(cb) g->t->insert(cb, before)
#else
#define INSL(cb) g->t->insertListener(EV, cb, before)
#endif
	if(p == 0) return INSL([id]() { rec(0, id, 0); });
	if(p == 1) return INSL([id](uint32_t a) { rec(1, id, a); });
	if(p == 2) return INSL([id](const Big & b) { rec(2, id, b.intact(b.tag) ? b.tag : 0xbadbad00u); });
	return INSL([id](Trk t, uint32_t a) { rec(3, id, (t.magic == 0x7157u && t.v == (a ^ 0x33u)) ? a : 0xbadbad01u); });
}
static void fire(int p, uint32_t v)
{
#if OBJ == 0
	if(p == 0) (*g->t)(); else if(p == 1) (*g->t)(v); else if(p == 2) (*g->t)(Big(v)); else (*g->t)(Trk(v ^ 0x33u), v);
#else
	if(p == 0) g->t->dispatch(EV); else if(p == 1) g->t->dispatch(EV, v); else if(p == 2) g->t->dispatch(EV, Big(v)); else g->t->dispatch(EV, Trk(v ^ 0x33u), v);
#endif
}
// the trace must be exactly: for each expected event (proto, val) in order, the listeners of that prototype in order
static void expect_trace(const QEv * evs, int n, int aid)
{
	Model & m = g->m; int k = 0;
	for(int e = 0; e < n; e++) for(int j = 0; j < m.nl[evs[e].proto]; j++) {
		vf_assert(k < g_trn && g_tr[k].proto == evs[e].proto && g_tr[k].lid == m.lis[evs[e].proto][j], aid);
		if(k < g_trn) vf_assert(g_tr[k].val == (evs[e].proto == 0 ? 0u : evs[e].val), aid + 1);
		k++;
	}
	vf_assert(g_trn == k, aid + 2);
}

#if OBJ == 2
static void enqueue(int p, uint32_t v)
{
	// prototype 1 is sometimes enqueued with an argument of another type (uint16_t) that converts to the prototype's parameter type
	if(p == 1 && (g->nextconv++ & 1)) { v &= 0xffffu; g->t->enqueue(EV, (uint16_t)v); vf_cover(COV_CONVERTED_ARG); }
	else if(p == 0) g->t->enqueue(EV); else if(p == 1) g->t->enqueue(EV, v); else if(p == 2) g->t->enqueue(EV, Big(v)); else g->t->enqueue(EV, Trk(v ^ 0x33u), v);
	Model & m = g->m; m.q[m.nq].proto = p; m.q[m.nq].val = v; m.nq++;
}
// a listener running inside a processing call may enqueue one more event (budget 1): it must wait for a later call, behind
// everything that was pending
static void reentrant()
{
	if(! g->inProcessing || g->budget <= 0 || g->m.nq >= MAXQ) return;
	if(vf_choose(2) == 0) return;
	g->budget--; vf_cover(COV_REENTRANT_ENQ);
	enqueue((int)vf_choose(2) + 1, vf_nondet_u32());      // prototype 1 or 2
}
// predicates: each records which prototype it was applied to and checks the arguments are those of a queued event
static bool pred_common(int proto, uint32_t v)
{
	g->predCalls++; g->predProtoMask |= 1 << proto;
	bool found = false; Model & m = g->m;
	for(int i = 0; i < m.nq; i++) if(m.q[i].proto == proto && (proto == 0 || m.q[i].val == v)) found = true;
	if(! found) g->predOk = false;
	return proto == 0 ? (g->acceptBit & 1u) != 0 : (v & 1u) != 0;     // accept odd payloads (symbolic): the solver picks
}
struct PredAny {
	bool operator()() const { return pred_common(0, 0); }
	bool operator()(uint32_t a) const { return pred_common(1, a); }
	bool operator()(const Big & b) const { return pred_common(2, b.intact(b.tag) ? b.tag : 0xbadbad02u); }
	bool operator()(const Trk & t, uint32_t a) const { return pred_common(3, (t.magic == 0x7157u && t.v == (a ^ 0x33u)) ? a : 0xbadbad03u); }
};
static bool accepts(const QEv & e) { return e.proto == 0 ? (g->acceptBit & 1u) != 0 : (e.val & 1u) != 0; }

static void do_process_if(int kind)      // kind 0..3: predicate callable with exactly prototype `kind`; 4: callable with all
{
	Model & m = g->m;
	g->predCalls = 0; g->predProtoMask = 0; g->predOk = true; g_trn = 0;
	bool r; int nq0 = m.nq;
	g->inProcessing = true;
	if(kind == 0) r = g->t->processIf([]() { return pred_common(0, 0); });
	else if(kind == 1) r = g->t->processIf([](uint32_t a) { return pred_common(1, a); });
	else if(kind == 2) r = g->t->processIf([](const Big & b) { return pred_common(2, b.intact(b.tag) ? b.tag : 0xbadbad02u); });
	else if(kind == 3) r = g->t->processIf([](const Trk & t, uint32_t a) { return pred_common(3, (t.magic == 0x7157u && t.v == (a ^ 0x33u)) ? a : 0xbadbad03u); });
	else r = g->t->processIf(PredAny());
	g->inProcessing = false;
	vf_assert(g->predOk, 220);                               // only applied to queued events, with intact arguments
	// model: prototypes the predicate is callable with, in list order; the first one with an accepted event is dispatched
	int lo = kind == 4 ? 0 : kind, hi = kind == 4 ? 3 : kind;
	int chosen = -1; int mask = 0;
	for(int p = lo; p <= hi && chosen < 0; p++) {
		bool any = false, has = false;
		for(int i = 0; i < nq0; i++) if(m.q[i].proto == p) { has = true; if(accepts(m.q[i])) any = true; }
		if(has) mask |= 1 << p;
		if(any) chosen = p;
	}
	vf_assert(g->predProtoMask == mask, 221);                // examined exactly the events of prototypes it is callable with (up to the one dispatched)
	if(kind != 4) for(int i = 0; i < m.nq; i++) if(m.q[i].proto != kind) vf_cover(COV_IF_SKIPS_FOREIGN);
	if(kind == 4 && chosen > 0) vf_cover(COV_IF_ANY_CONTINUES);
	vf_assert(r == (chosen >= 0), 222);
	QEv disp[MAXQ * 2]; int nd = 0, keep = 0;
	for(int i = 0; i < m.nq; i++) { if(i < nq0 && m.q[i].proto == chosen && accepts(m.q[i])) disp[nd++] = m.q[i]; else m.q[keep++] = m.q[i]; }
	m.nq = keep;                                             // every other event untouched, intact and in place
	expect_trace(disp, nd, 223);
}
#endif

#if OBJ != 2
static void reentrant() {}
#endif

static void check_ledger()
{
	Model & m = g->m; int nb = 0, nt = 0;
	for(int i = 0; i < m.nq; i++) { if(m.q[i].proto == 2) nb++; if(m.q[i].proto == 3) nt++; }
	vf_assert(g_live_big == nb, 230);                        // exactly the pending events' arguments are alive: nothing leaked,
	vf_assert(g_live_trk == nt, 231);                        // nothing destroyed as the wrong type
	vf_assert(g_bad == 0, 232);
}

extern "C" void harness()
{
	g = new G(); g->t = new T(); g->nextid = 100; Model & m = g->m;
	for(int p = 0; p < 4; p++) { g->hs[m.nh] = add(p, g->nextid, false); m.hproto[m.nh] = p; m.hid[m.nh] = g->nextid; m.hlive[m.nh] = true; m.nh++; m.lis[p][m.nl[p]++] = g->nextid++; }
	g->acceptBit = vf_nondet_u32(); g->budget = 1; g->nextconv = vf_choose(2);
#if OBJ == 2
	if(vf_choose(2)) {      // start with a recycled slot whose bytes still hold an earlier (symbolic) payload
		enqueue(1, vf_nondet_u32() | 0x10000u);
		g_trn = 0; bool r = g->t->process(); vf_assert(r, 251); expect_trace(m.q, 1, 252); m.nq = 0;
	}
#endif
	for(int step = 0; step < KK; step++) {
#if OBJ == 2 && defined(QOPS_ONLY)
		unsigned op = 7 + vf_choose(7);          // only process / processOne / enqueue / processIf
#elif OBJ == 2
		unsigned op = vf_choose(3 + 4 + 2 + 5 + 1);
#else
		unsigned op = vf_choose(3 + 4 + 1);
#endif
		const unsigned OP_INSERT = (OBJ == 2) ? 14u : 7u;
		if(op == OP_INSERT) {                                // insert a callback of prototype p before a handle of any prototype (live or stale)
			int p = 1 + (int)vf_choose(2); int h = (int)vf_choose(4);      // prototype 1 or 2, before one of the four initial callbacks (one per prototype; live or removed by now)
			if(m.nh < MAXL) {
				g->hs[m.nh] = add_before(p, g->nextid, g->hs[h]);
				int pos = m.nl[p];
				if(m.hproto[h] == p && m.hlive[h]) { for(int i = 0; i < m.nl[p]; i++) if(m.lis[p][i] == m.hid[h]) pos = i; vf_cover(COV_INSERT_SAME_PROTO); }
				else if(m.hproto[h] != p) vf_cover(COV_INSERT_OTHER_PROTO);
				for(int k = m.nl[p]; k > pos; k--) m.lis[p][k] = m.lis[p][k - 1];
				m.lis[p][pos] = g->nextid; m.nl[p]++;
				m.hproto[m.nh] = p; m.hid[m.nh] = g->nextid; m.hlive[m.nh] = true; m.nh++; g->nextid++;
			}
		}
		else if(op == 0 || op == 1) {                        // add a callback of prototype p (append / prepend)
			int p = (int)vf_choose(4); bool front = op == 1;
			if(m.nh < MAXL) {
				g->hs[m.nh] = add(p, g->nextid, front); m.hproto[m.nh] = p; m.hid[m.nh] = g->nextid; m.hlive[m.nh] = true; m.nh++;
				if(front) { for(int k = m.nl[p]; k > 0; k--) m.lis[p][k] = m.lis[p][k - 1]; m.lis[p][0] = g->nextid; } else m.lis[p][m.nl[p]] = g->nextid;
				m.nl[p]++; g->nextid++;
			}
		}
		else if(op == 2) {                                   // remove through a handle (live or stale)
			int h = (int)vf_choose((unsigned)m.nh);
#if OBJ == 0
			bool r = g->t->remove(g->hs[h]);
#else
			bool r = g->t->removeListener(EV, g->hs[h]);
#endif
			vf_assert(r == m.hlive[h], 233);
			if(r) { int p = m.hproto[h], j = 0; for(int i = 0; i < m.nl[p]; i++) if(m.lis[p][i] != m.hid[h]) m.lis[p][j++] = m.lis[p][i]; m.nl[p] = j; m.hlive[h] = false; }
		}
		else if(op < 7) {                                    // invoke / dispatch with the argument list of prototype p
			int p = (int)op - 3; uint32_t v = vf_nondet_u32();
			g_trn = 0; fire(p, v);
			QEv e; e.proto = p; e.val = v; expect_trace(&e, 1, 234);
			if(m.nl[p] > 0) vf_cover(COV_INVOKE_EACH);
		}
#if OBJ == 2
		else if(op == 7) {                                   // process: everything, FIFO across prototypes
			g_trn = 0; int nq0 = m.nq; g->inProcessing = true; bool r = g->t->process(); g->inProcessing = false;
			vf_assert(r == (nq0 > 0), 237);
			expect_trace(m.q, nq0, 238); for(int i = nq0; i < m.nq; i++) m.q[i - nq0] = m.q[i]; m.nq -= nq0;
		}
		else if(op == 8) {
			g_trn = 0; int nq0 = m.nq; g->inProcessing = true; bool r = g->t->processOne(); g->inProcessing = false;
			vf_assert(r == (nq0 > 0), 241);
			if(nq0 > 0) { expect_trace(m.q, 1, 242); for(int i = 1; i < m.nq; i++) m.q[i - 1] = m.q[i]; m.nq--; } else vf_assert(g_trn == 0, 245);
		}
		else {
			unsigned sub = op - 9;                           // 0..4: enqueue prototype p or processIf
			unsigned which = vf_choose(2);
			if(which == 0 && sub < 4) {
				if(m.nq < MAXQ) {
					bool recycled = ! g->t->freeList.empty();
					if(recycled && m.nq == 0) vf_cover(COV_RECYCLE_OTHER_TYPE);
					enqueue((int)sub, vf_nondet_u32());
					for(int i = 0; i + 1 < m.nq; i++) if(m.q[i].proto != m.q[i + 1].proto) vf_cover(COV_MIXED_QUEUE);
				}
			}
			else do_process_if((int)sub);
		}
		vf_assert(g->t->emptyQueue() == (m.nq == 0), 246);
#endif
		check_ledger();
	}
	// an EMPTY handle written the plain way (`Handle h;`, default-initialised) in storage that held arbitrary bytes before: it refers to no callback --
	// remove through it returns false and changes nothing, insert-before it appends at the back (its content must not be left indeterminate)
	{
		void * buf = ::operator new(sizeof(T::Handle)); vf_havoc(buf, sizeof(T::Handle));
		T::Handle * eh = new (buf) T::Handle;
#if OBJ == 0
		bool r = g->t->remove(*eh);
#else
		bool r = g->t->removeListener(EV, *eh);
#endif
		vf_assert(! r, 254);
		int p = 1 + (int)vf_choose(2);
		if(m.nl[p] < MAXL) { add_before(p, 8000u + (uint32_t)p, *eh); m.lis[p][m.nl[p]++] = 8000u + (uint32_t)p; }
		{ using HandleT = T::Handle; eh->~HandleT(); } ::operator delete(buf);
	}
	// final probe: one more callback appended to every prototype is reached by that prototype's invocation (a stale tail would lose it)
	for(int p = 0; p < 4; p++) if(m.nl[p] < MAXL) {
		add(p, 9000u + (uint32_t)p, false); m.lis[p][m.nl[p]++] = 9000u + (uint32_t)p;
		uint32_t v = vf_nondet_u32(); g_trn = 0; fire(p, v);
		QEv e; e.proto = p; e.val = v; expect_trace(&e, 1, 253);
	}
#if OBJ == 2
	// final drain: whatever is still pending comes out in FIFO order
	{ g_trn = 0; g->budget = 0; int nq0 = m.nq; bool r = g->t->process(); vf_assert(r == (nq0 > 0), 248); expect_trace(m.q, nq0, 249); m.nq = 0; check_ledger(); }
#endif
	for(int i = 0; i < MAXL; i++) g->hs[i] = T::Handle();
	delete g->t;
	vf_assert(g_live_big == 0 && g_live_trk == 0 && g_bad == 0, 247);
	delete g; g = nullptr;
	vf_end();
}
