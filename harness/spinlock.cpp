// spinlock.cpp -- the lock primitives behind "the multi-threaded policy (std::mutex or SpinLock)" (C03, C06, C20):
// eventpp::SpinLock (real code, executed on its IR atomics, every atomic is a scheduling point) and, for comparison,
// std::mutex (engine model of pthread_mutex_*) used through the very same Threading::Mutex interface eventpp uses
// (std::lock_guard / std::unique_lock: lock(), unlock()).
//   TT threads, each RR rounds of: lock; critical section with a scheduling point between read and write of a plain counter; unlock.
//   Mutual exclusion: never two threads inside; no lost update; progress: every thread gets the lock (no deadlock, no livelock
//   at a terminal state); the lock is free at the end.
// LOCKKIND: 0 eventpp::SpinLock  1 std::mutex  3 EventQueue under GeneralThreading<SpinLock>  2 SpinLock through GeneralThreading<SpinLock>::Mutex inside a real CallbackList (append / remove / invoke)
#include "common.h"

#ifndef TT
#define TT 2
#endif
#ifndef RR
#define RR 2
#endif
#ifndef LOCKKIND
#define LOCKKIND 0
#endif

enum { COV_CONTENDED = 0, COV_HANDOVER, COV_N };

#if LOCKKIND == 0 || LOCKKIND == 1
#if LOCKKIND == 0
using Lock = eventpp::SpinLock;
#else
using Lock = std::mutex;
#endif
struct G { Lock lk; int inside; int counter; int entered[8]; int waited; };
static G * g;

static void worker(void * arg)
{
	int me = (int)(intptr_t)arg;
	for(int r = 0; r < RR; r++) {
		if(g->inside) g->waited = 1;
		{
			std::lock_guard<Lock> guard(g->lk);
			vf_assert(g->inside == 0, 700);            // mutual exclusion
			g->inside = 1;
			vf_yield(1);
			int c = g->counter;
			vf_yield(2);
			vf_assert(g->inside == 1, 701);
			g->counter = c + 1;                        // a second thread inside would lose this update
			g->entered[me]++;
			g->inside = 0;
		}
		vf_yield(3);
	}
}

extern "C" void harness()
{
	g = new G(); g->inside = 0; g->counter = 0; g->waited = 0; for(int i = 0; i < 8; i++) g->entered[i] = 0;
	for(int i = 0; i < TT; i++) vf_spawn(worker, (void *)(intptr_t)i);
	int dl = vf_join_all();
	vf_assert(dl == 0, 702);                           // nobody is left spinning / blocked forever
	vf_assert(g->counter == TT * RR, 703);             // no lost update
	for(int i = 0; i < TT; i++) vf_assert(g->entered[i] == RR, 704);
	if(g->waited) vf_cover(COV_CONTENDED);
	vf_cover(COV_HANDOVER);
	// the lock is free again: taking it once more from the main thread must succeed at once
#if LOCKKIND == 1
	{ std::unique_lock<Lock> again(g->lk, std::try_to_lock); vf_assert(again.owns_lock(), 705); }
#endif
#if LOCKKIND == 0
	{ std::lock_guard<Lock> guard(g->lk); vf_assert(g->inside == 0, 706); }
#endif
	vf_obs(1, (uint64_t)g->counter);
	delete g; g = nullptr;
	vf_end();
}

#elif LOCKKIND == 3
// ---------------------------------------------------------------------------------------------------------------------
// LOCKKIND 3: a real EventQueue under GeneralThreading<SpinLock> (C06): TT-1 producers x RR enqueues, one consumer (process, processOne);
// after the join the queue is drained: dispatched events = enqueued events, each once, per producer in order.
struct QPol { using Threading = eventpp::GeneralThreading<eventpp::SpinLock>; };
using Q = eventpp::EventQueue<int, void(uint32_t), QPol>;
struct G { Q q; uint32_t seen[16]; int nseen; };
static G * g;
static void producer(void * arg) { int me = (int)(intptr_t)arg; for(int r = 0; r < RR; r++) g->q.enqueue(1, (uint32_t)(10 * (me + 1) + r)); }
static void consumer(void *) { g->q.process(); g->q.processOne(); }
extern "C" void harness()
{
	g = new G(); g->nseen = 0;
	g->q.appendListener(1, [](uint32_t v) { if(g->nseen < 16) g->seen[g->nseen] = v; g->nseen++; });
	g->q.enqueue(1, 1u); g->q.process(); g->nseen = 0;          // a recycled slot exists before the threads start
	for(int i = 0; i < TT - 1; i++) vf_spawn(producer, (void *)(intptr_t)i);
	vf_spawn(consumer, nullptr);
	int dl = vf_join_all();
	vf_assert(dl == 0, 720);
	g->q.process();
	vf_assert(g->q.emptyQueue(), 721);
	vf_assert(g->nseen == (TT - 1) * RR, 722);
	for(int i = 0; i < g->nseen && i < 16; i++) for(int j = i + 1; j < g->nseen && j < 16; j++) vf_assert(g->seen[i] != g->seen[j], 723);
	for(int t = 0; t < TT - 1; t++) { uint32_t last = 0; for(int i = 0; i < g->nseen && i < 16; i++) if(g->seen[i] / 10 == (uint32_t)(t + 1)) { vf_assert(g->seen[i] > last, 724); last = g->seen[i]; } }
	vf_cover(COV_CONTENDED); vf_cover(COV_HANDOVER);
	delete g; g = nullptr;
	vf_end();
}

#else
// ---------------------------------------------------------------------------------------------------------------------
// LOCKKIND 2: a real CallbackList under GeneralThreading<SpinLock>; the callback type counts overlapping executions of the
// list's critical sections indirectly: each thread appends RR callbacks and removes its first one; afterwards the list must
// hold exactly the survivors, each invoked once.
struct Cb { uint32_t id; void operator()(uint32_t) const; bool operator==(const Cb & o) const { return id == o.id; } };
struct Pol { using Threading = eventpp::GeneralThreading<eventpp::SpinLock>; using Callback = Cb; };
using CL = eventpp::CallbackList<void(uint32_t), Pol>;
struct G { CL cl; uint32_t seen[16]; int nseen; bool removed[8]; };
static G * g;
void Cb::operator()(uint32_t) const { if(g->nseen < 16) g->seen[g->nseen] = id; g->nseen++; }

static void worker(void * arg)
{
	int me = (int)(intptr_t)arg;
	CL::Handle first;
	for(int r = 0; r < RR; r++) { CL::Handle h = g->cl.append(Cb{(uint32_t)(10 * (me + 1) + r)}); if(r == 0) first = h; }
	g->removed[me] = g->cl.remove(first);
}

extern "C" void harness()
{
	g = new G(); g->nseen = 0;
	for(int i = 0; i < TT; i++) vf_spawn(worker, (void *)(intptr_t)i);
	int dl = vf_join_all();
	vf_assert(dl == 0, 710);
	for(int i = 0; i < TT; i++) vf_assert(g->removed[i], 711);
	g->cl(0u);
	vf_assert(g->nseen == TT * (RR - 1), 712);         // every survivor exactly once, nobody lost to a corrupted link
	for(int i = 0; i < g->nseen && i < 16; i++) { vf_assert(g->seen[i] % 10 != 0, 713); for(int j = i + 1; j < g->nseen && j < 16; j++) vf_assert(g->seen[i] != g->seen[j], 714); }
	// per thread, its own callbacks in its own order
	for(int t = 0; t < TT; t++) { uint32_t last = 0; for(int i = 0; i < g->nseen && i < 16; i++) if(g->seen[i] / 10 == (uint32_t)(t + 1)) { vf_assert(g->seen[i] > last, 715); last = g->seen[i]; } }
	vf_cover(COV_CONTENDED); vf_cover(COV_HANDOVER);
	delete g; g = nullptr;
	vf_end();
}
#endif
