// cl_nested.cpp -- C02 (and with -DTRACKED C08): programs in which callbacks mutate / re-invoke the list
// (or the dispatcher's listener list) that is invoking them.
//
// N0 initial callbacks; then one outermost invocation. Every callback, when it runs, draws actions with
// vf_choose until it chooses "done" or the global action budget AA is used up:
//   append | prepend | insert-before h | remove h | re-invoke (nesting depth <= DD) | (DISP) append to / dispatch another event
// h ranges over all handles handed out so far -- including the running callback's own and already removed ones --
// and a never-assigned empty handle. After every action the non-forking observations run (ownsHandle of every
// handle, empty, forEach enumeration).
#include "common.h"

#ifndef N0
#define N0 3
#endif
#ifndef AA
#define AA 3
#endif
#ifndef DD
#define DD 2
#endif
#define MAXN (N0 + AA + 1)

struct Cb;
static void cb_run(uint32_t slot, uint32_t arg);

#ifdef TRACKED
static int g_live_cb = 0; static int g_bad = 0;
struct Cb {
	uint32_t slot; uint32_t magic;
	explicit Cb(uint32_t s) : slot(s), magic(0xC0FFEEu) { ++g_live_cb; }
	Cb(const Cb & o) : slot(o.slot), magic(0xC0FFEEu) { if(o.magic != 0xC0FFEEu) ++g_bad; ++g_live_cb; }
	Cb & operator=(const Cb & o) { if(o.magic != 0xC0FFEEu || magic != 0xC0FFEEu) ++g_bad; slot = o.slot; return *this; }
	~Cb() { if(magic != 0xC0FFEEu) ++g_bad; magic = 0xDEADu; --g_live_cb; }
	void operator()(uint32_t a) const { if(magic != 0xC0FFEEu) ++g_bad; cb_run(slot, a); }
};
#else
struct Cb {
	uint32_t slot;
	explicit Cb(uint32_t s) : slot(s) {}
	void operator()(uint32_t a) const { cb_run(slot, a); }
};
#endif

#ifndef THREADING
#define THREADING VMutexOnlyThreading
#endif
struct Pol { using Threading = THREADING; using Callback = Cb; };

#ifdef DISP
using Target = eventpp::EventDispatcher<int, void(uint32_t), Pol>;
using Handle = Target::Handle;
enum { EV = 7, EV2 = 8, OTHER_SLOT = 1000 };
#else
using Target = eventpp::CallbackList<void(uint32_t), Pol>;
using Handle = Target::Handle;
#endif

struct Model {
	int order[MAXN]; int cnt; bool live[MAXN]; int alloc;
	void add_at(int pos) { for(int k = cnt; k > pos; k--) order[k] = order[k - 1]; order[pos] = alloc; cnt++; live[alloc] = true; alloc++; }
	int pos(int slot) const { for(int k = 0; k < cnt; k++) if(order[k] == slot) return k; return -1; }
	bool isLive(int slot) const { return slot < alloc && live[slot]; }
	bool remove(int slot) { if(! isLive(slot)) return false; int p = pos(slot); for(int k = p; k < cnt - 1; k++) order[k] = order[k + 1]; cnt--; live[slot] = false; return true; }
};

// one record per invocation in progress
struct Inv {
	bool atStart[MAXN]; int startPos[MAXN]; bool called[MAXN]; int lastPos; uint32_t arg; bool relaxed;
};

struct G {
	Target * t; Handle hs[MAXN + 1]; Model m; Inv inv[DD + 1]; int depth; int budget; int other_cnt; int other_calls; unsigned form;
};
static G * g;

enum { COV_NESTED = 0, COV_REMOVE_SELF, COV_REMOVE_LATER, COV_ADD_DURING, COV_STALE_OP, COV_INSERT_BEFORE_LATER, COV_WRAPPED, COV_WRAP_EXTRA, COV_N };

static Handle do_append(uint32_t s) {
#ifdef DISP
	return g->t->appendListener(EV, Cb(s));
#else
	return g->t->append(Cb(s));
#endif
}
static Handle do_prepend(uint32_t s) {
#ifdef DISP
	return g->t->prependListener(EV, Cb(s));
#else
	return g->t->prepend(Cb(s));
#endif
}
static Handle do_insert(uint32_t s, const Handle & h) {
#ifdef DISP
	return g->t->insertListener(EV, Cb(s), h);
#else
	return g->t->insert(Cb(s), h);
#endif
}
static bool do_remove(const Handle & h) {
#ifdef DISP
	return g->t->removeListener(EV, h);
#else
	return g->t->remove(h);
#endif
}
static bool do_owns(const Handle & h) {
#ifdef DISP
	return g->t->ownsHandle(EV, h);
#else
	return g->t->ownsHandle(h);
#endif
}
static bool do_empty() {
#ifdef DISP
	return ! g->t->hasAnyListener(EV);
#else
	return g->t->empty();
#endif
}
template <typename F> static void do_foreach(F && f) {
#ifdef DISP
	g->t->forEach(EV, f);
#else
	g->t->forEach(f);
#endif
}

static void invoke(uint32_t arg)
{
	Inv & iv = g->inv[g->depth];
	for(int s = 0; s < MAXN; s++) { iv.atStart[s] = false; iv.called[s] = false; iv.startPos[s] = -1; }
	for(int k = 0; k < g->m.cnt; k++) { iv.atStart[g->m.order[k]] = true; iv.startPos[g->m.order[k]] = k; }
	iv.lastPos = -1; iv.arg = arg; iv.relaxed = false;
	g->depth++;
#ifdef DISP
	if(g->form) g->t->dispatch(EV, arg); else g->t->directDispatch(EV, arg);
#else
	(*g->t)(arg);
#endif
	g->depth--;
	// every callback present at the start was called, unless it was removed before its turn
	for(int s = 0; s < g->m.alloc; s++) {
		if(iv.atStart[s]) vf_assert(iv.called[s] || ! g->m.live[s], 40);
	}
}

static void observe()
{
	for(int s = 0; s <= MAXN; s++) {
		if(s < g->m.alloc || s == MAXN) vf_assert(do_owns(g->hs[s]) == g->m.isLive(s), 41);
	}
	vf_assert(do_empty() == (g->m.cnt == 0), 42);
	int n = 0; bool ok = true;
	// the functor calls back into the same list / dispatcher: no lock may be held while it runs
	do_foreach([&](const Handle & h, const Cb & cb) { if(n < g->m.cnt && (int)cb.slot != g->m.order[n]) ok = false; if(! do_owns(h)) ok = false; if(do_empty()) ok = false; ++n; });
	vf_assert(n == g->m.cnt, 43); vf_assert(ok, 44);
}

static void cb_run(uint32_t slot, uint32_t arg)
{
#ifdef DISP
	if(slot >= OTHER_SLOT) { g->other_calls++; return; }
#endif
	vf_assert(g->depth >= 1, 50);
	Inv & iv = g->inv[g->depth - 1];
	int s = (int)slot;
	vf_obs(1, slot);
	vf_assert(arg == iv.arg, 51);                 // the invocation's argument
	vf_assert(g->m.isLive(s), 52);                // a removed callback is not called
#ifdef WRAP
	// C19: an invocation in progress at the moment of the wrap may additionally call callbacks added during it
	vf_assert(iv.atStart[s] || iv.relaxed, 53);
	if(! iv.atStart[s]) { iv.startPos[s] = iv.lastPos + 1; vf_cover(COV_WRAP_EXTRA); }
#else
	vf_assert(iv.atStart[s], 53);                 // a callback added during the invocation is not called by it
#endif
	vf_assert(! iv.called[s], 54);                // at most once
#ifndef WRAP
	vf_assert(iv.startPos[s] > iv.lastPos, 55);   // in list order
#endif
	iv.called[s] = true; iv.lastPos = iv.startPos[s];
	// ---- this callback's program
	while(g->budget > 0) {
		unsigned nh = (unsigned)g->m.alloc + 1;
		unsigned extra = 0;
#ifdef DISP
		extra = 2;
#endif
		unsigned act = vf_choose(3 + 2 * nh + 1 + extra);
		if(act == 0) break;
		g->budget--;
		Model & m = g->m;
#ifdef WRAP
		uint32_t cbefore = g->t->currentCounter.value;
#endif
		if(act == 1) { g->hs[m.alloc] = do_append((uint32_t)m.alloc); m.add_at(m.cnt); vf_cover(COV_ADD_DURING); }
		else if(act == 2) { g->hs[m.alloc] = do_prepend((uint32_t)m.alloc); m.add_at(0); vf_cover(COV_ADD_DURING); }
		else if(act < 3 + nh) {
			unsigned h = act - 3; if(h == (unsigned)m.alloc) h = MAXN;
			Handle before = g->hs[h];
			int p = m.isLive((int)h) ? m.pos((int)h) : m.cnt;
			if(! m.isLive((int)h) && h != MAXN) vf_cover(COV_STALE_OP);
			if(m.isLive((int)h) && iv.atStart[h] && ! iv.called[h]) vf_cover(COV_INSERT_BEFORE_LATER);
			g->hs[m.alloc] = do_insert((uint32_t)m.alloc, before); m.add_at(p);
		}
		else if(act < 3 + 2 * nh) {
			unsigned h = act - 3 - nh; if(h == (unsigned)m.alloc) h = MAXN;
			bool stale = (h != MAXN) && ! m.isLive((int)h);
			if((int)h == s) vf_cover(COV_REMOVE_SELF);
			if(m.isLive((int)h) && iv.atStart[h] && ! iv.called[h]) vf_cover(COV_REMOVE_LATER);
			bool r = do_remove(g->hs[h]);
			bool e = m.remove((int)h);
			vf_assert(r == e, 56);
			vf_obs(2, r);
			if(stale) vf_cover(COV_STALE_OP);
		}
		else if(act == 3 + 2 * nh) {
			if(g->depth <= DD) { vf_cover(COV_NESTED); invoke(vf_nondet_u32()); }
		}
#ifdef DISP
		else if(act == 3 + 2 * nh + 1) { g->t->appendListener(EV2, Cb(OTHER_SLOT + g->other_cnt)); g->other_cnt++; }
		else { int before = g->other_calls; g->t->dispatch(EV2, 5u); vf_assert(g->other_calls - before == g->other_cnt, 57); }
#endif
#ifdef WRAP
		if(g->t->currentCounter.value < cbefore) { for(int d = 0; d < g->depth; d++) g->inv[d].relaxed = true; vf_cover(COV_WRAPPED); }
#endif
		observe();
	}
}

extern "C" void harness()
{
	g = new G();
	g->t = new Target();
	g->budget = AA;
#ifdef DISP
	g->form = vf_choose(2);
#endif
#ifdef WRAP
	{
		uint32_t c0 = vf_nondet_u32();
		vf_assume(c0 >= 0xffffffffu - (WRAP));
		g->t->currentCounter.value = c0;
	}
#endif
#ifdef ANYC
	{
		// the list has already seen an arbitrary number c0 of additions, at least 64 short of 2^32: nothing in this program can reach the wrap, so the
		// strict rules hold without the licence C19 gives to an invocation in progress at the wrap ("wraps around after 2^32 additions", not earlier)
		uint32_t c0 = vf_nondet_u32();
		vf_assume(c0 >= 1u && c0 <= 0xffffffffu - 64u);
		g->t->currentCounter.value = c0;
	}
#endif
	for(int i = 0; i < N0; i++) { g->hs[g->m.alloc] = do_append((uint32_t)g->m.alloc); g->m.add_at(g->m.cnt); }
	invoke(vf_nondet_u32());
	// after the outermost invocation the list holds exactly what the same operations produce outside an invocation
	g->budget = 0;
	observe();
	invoke(vf_nondet_u32());
	for(int k = 0; k < g->m.cnt; k++) vf_assert(g->inv[0].called[g->m.order[k]], 60);
#ifdef TRACKED
	vf_assert(g_live_cb == g->m.cnt, 61);      // removed callbacks are released once no invocation is in progress
	vf_assert(g_bad == 0, 62);
#endif
	for(int s = 0; s <= MAXN; s++) g->hs[s] = Handle();
	delete g->t;
#ifdef TRACKED
	vf_assert(g_live_cb == 0, 63); vf_assert(g_bad == 0, 64);
#endif
	delete g; g = nullptr;
	vf_end();
}
