#!/usr/bin/env python3
"""Regenerates /verif/MANIFEST.json from engine/props.py (claimed checks) and the NA table below."""
import json, os, sys
HERE = os.path.dirname(os.path.abspath(__file__)); VERIF = os.path.dirname(HERE)
sys.path.insert(0, HERE)
import props

ALL = ['C%02d' % i for i in range(1, 21)]

LEVEL_TEXT = {
}
DEFAULT_LEVEL = ('Bounded symbolic model checking of the real code: the harness instantiates the real eventpp templates, clang-14 lowers them to IR on '
                 'every run, and E-sym executes the IR symbolically. Structural choices (operation, handle, schedule, fault point) are forked '
                 'exhaustively inside the stated bound; data (ids, arguments, keys, counters, verdicts, prior memory) stays symbolic and every '
                 'assertion is decided by z3 for all values. A counterexample is replayed on a native g++ build before it is reported. '
                 'Nothing is claimed outside the bounds listed in the evidence.')
DEFAULT_NOTE = ('Trusted: clang-14 lowering, /verif/engine (IR parser + symbolic executor; cross-checked on every run by replaying witness paths on native '
                'g++ builds and comparing observation traces), z3, support/stdsupport.cpp, harness reference models. SC memory; pointers concrete.')

NA_REASONS = {}


def main():
    checks = []
    for pid in ALL:
        if pid not in props.PROPS: continue
        sp = props.PROPS[pid]
        checks.append({
            'property_id': pid,
            'quick_cmd': './check %s --tier quick' % pid,
            'thorough_cmd': './check %s --tier thorough' % pid,
            'evidence_file': 'evidence/%s.json' % pid,
            'replay_cmd_template': './check %s --replay {path}' % pid,
            'engine': 'E-sym',
            'level_claimed': {'category': 'model_checking', 'text': getattr(sp, 'level_text', None) or DEFAULT_LEVEL, 'design_ref': 'DESIGN.md section 4, ' + pid},
            'level_note': DEFAULT_NOTE + (' ' + sp.note if getattr(sp, 'note', None) else ''),
            'technique': getattr(sp, 'technique', None) or 'solver-based bounded symbolic execution of clang-lowered IR (own KLEE-class engine over z3) with native counterexample replay',
        })
    na = [{'property_id': p, 'reason': NA_REASONS.get(p, 'check not built yet in this session (work in progress; see DESIGN.md section 4 for the planned encoding)')} for p in ALL if p not in props.PROPS]
    man = {
        'version': 1,
        'setup_cmd': 'true',
        'hooks': {
            'guard': 'EVENTPP_VERIF',
            'enable': 'harnesses are compiled with -DEVENTPP_VERIF -I/repo/include (clang++-14 to IR for the engine, g++/clang++ natively for replay)',
            'baseline_off_cmd': '/verif/run_baseline.sh',
            'source_commits': props.HOOK_COMMITS,
            'add_only': True,
        },
        'engines': [
            {'name': 'E-sym', 'path': 'engine/symx.py', 'serves_properties': [c['property_id'] for c in checks],
             'kind_free_text': 'symbolic executor for clang-14 LLVM IR (concrete heap shape and control, symbolic data, forking on choices/schedules/faults) deciding assertions with z3; native replay runtime in runtime/vf_native.cpp'},
            {'name': 'E-bmc', 'path': 'engine/ir2c.py', 'serves_properties': props.EBMC_PROPS,
             'kind_free_text': 'IR->C translator + cbmc 6.11 for heap-free leaf kernels (cross-check of E-sym verdicts)'},
        ],
        'checks': checks,
        'not_applicable': na,
        'notes': 'One entry point: ./check <id> --tier quick|thorough. Exit 0 = held within bounds; 1 = VIOLATION line with replay file; 2 = inconclusive (fail closed). '
                 'Known findings and fixed defects: known_findings.json. Design, bounds and what is outside every claim: DESIGN.md.',
    }
    json.dump(man, open(os.path.join(VERIF, 'MANIFEST.json'), 'w'), indent=1)
    print('MANIFEST.json: %d checks, %d not_applicable' % (len(checks), len(na)))


if __name__ == '__main__':
    main()
