// anydata_string.cpp -- C17 with a std::string as the held value: a short string (<= 15 characters) lives inside the string object and its data
// pointer points at the object itself, a long one owns a heap block. Held inline (AnyData<64>) and beyond the inline capacity (AnyData<1>).
// basic_string<char> is an extern template in libstdc++; the explicit instantiation below puts its members into this translation unit's IR.
#include "common.h"
template class std::basic_string<char>;

enum { COV_SHORT = 0, COV_LONG, COV_QUEUE, COV_N };
struct QPol { using Threading = VMutexOnlyThreading; };

static bool all_chars(const std::string & s, size_t n, char c) { if(s.size() != n) return false; for(size_t i = 0; i < n; i++) if(s[i] != c) return false; return true; }

template <size_t M> static void run(size_t n, char c)
{
	using AD = eventpp::AnyData<M>;
	std::string * src = new std::string(n, c);
	AD * a = new AD(*src);                                   // holds its own copy
	vf_assert(all_chars(a->template get<std::string>(), n, c), 190);
	vf_assert(a->template isType<std::string>() && ! a->template isType<int>(), 191);
	delete src;                                              // the original is gone: the copy does not depend on it
	vf_assert(all_chars(a->template get<std::string>(), n, c), 192);
	AD * b = new AD(std::move(*a));                          // moving the holder moves the held string
	delete a;                                                // the old holder and its storage are gone
	vf_assert(all_chars(b->template get<std::string>(), n, c), 193);
	const std::string & r = *b; const std::string * p = *b;
	vf_assert(&r == p && (const void *)p == b->getAddress(), 194);
	if(vf_choose(2)) {
		// inside a queued event
		using Q = eventpp::EventQueue<int, void(const AD &), QPol>;
		static size_t seenN; static bool seenOk; seenOk = false; seenN = 0;
		static char expectC; expectC = c; static size_t expectN; expectN = n;
		Q * q = new Q();
		q->appendListener(1, [](const AD & d) { const std::string & s = d.template get<std::string>(); seenN = s.size(); seenOk = all_chars(s, expectN, expectC); });
		q->enqueue(1, std::move(*b));
		delete b; b = nullptr;
		q->process();
		vf_assert(seenOk && seenN == n, 195);
		delete q;
		vf_cover(COV_QUEUE);
	}
	delete b;
}

extern "C" void harness()
{
	char c = (char)(vf_nondet_u32() & 0x7fu);
	vf_assume(c != 0);
	unsigned k = vf_choose(3);
	size_t n = k == 0 ? 5 : (k == 1 ? 15 : 40);
	if(n <= 15) vf_cover(COV_SHORT); else vf_cover(COV_LONG);
	if(vf_choose(2)) run<64>(n, c); else run<1>(n, c);
	vf_end();
}
