/* CBMC harness for the lowered CounterRemover wrapper: for EVERY 32-bit trigger count n and up to 5 triggers the wrapped listener is
   invoked on exactly the first max(n,1) triggers, removal is requested exactly once and only when due, and no signed overflow occurs
   (the generated C asserts every nsw operation). */
#include "bmc.h"
uint32_t k_counter(int32_t n, uint32_t triggers);
void laws(void)
{
	IN32(n); IN32(triggers);
	ASSUME(triggers <= 5);
	uint32_t r = k_counter((int32_t)n, triggers);
	uint32_t calls = r & 0xff, requests = (r >> 8) & 0xff, attached = (r >> 16) & 1;
	int64_t maxn = (int32_t)n <= 1 ? 1 : (int64_t)(int32_t)n;
	int64_t expect = maxn < (int64_t)triggers ? maxn : (int64_t)triggers;
	LAW((int64_t)calls == expect, "invoked on exactly the first max(n,1) triggers");
	LAW(requests == (maxn <= (int64_t)triggers ? 1u : 0u), "removal requested exactly once, when the count is exhausted");
	LAW(attached == (maxn > (int64_t)triggers ? 1u : 0u), "attached exactly while triggers remain");
#ifdef WITNESS
	LAW(0, "reachability witness (must FAIL)");
#endif
}
#ifndef __CPROVER__
int vf_argc; char ** vf_argv; int vf_failed;
int main(int argc, char ** argv)
{
	vf_argc = argc; vf_argv = argv;
	if(argc > 1 && ! strcmp(argv[1], "--difftest")) {
		uint64_t h = 1469598103934665603ull; int32_t ns[] = { -2147483647, -5, -1, 0, 1, 2, 3, 4, 5, 6, 1000, 2147483647 };
		for(unsigned i = 0; i < sizeof(ns) / sizeof(ns[0]); i++) for(uint32_t t = 0; t <= 5; t++) h = (h ^ k_counter(ns[i], t)) * 1099511628211ull;
		printf("%llu\n", (unsigned long long)h); return 0;
	}
	laws();
	printf(vf_failed ? "LAWS-VIOLATED\n" : "LAWS-HOLD\n");
	return vf_failed ? 3 : 0;
}
#endif
