#!/usr/bin/env python3
"""E-sym: symbolic executor for clang-14 LLVM IR (typed pointers) with z3.

Concrete control flow and heap shape, symbolic data.  Structural nondeterminism
(vf_choose, symbolic branches, thread schedules, fault points, cv wake-ups) is resolved by
forking; every fork is recorded so that a path can be replayed natively.  Data stays symbolic in
a path and assertions over it are decided by z3 for *all* values (within the harness' assumes).

See /verif/DESIGN.md section 3.3 for the semantics this implements.
"""
import sys, os, time, copy, collections, json
sys.path.insert(0, os.path.dirname(os.path.abspath(__file__)))
import irparse
from irparse import T, I, V
import z3

BINOPS = irparse.BINOPS


class Violation(Exception):
    def __init__(self, msg, kind='assert', aid=None, model=None):
        Exception.__init__(self, msg); self.msg = msg; self.kind = kind; self.aid = aid; self.model = model
class PathEnd(Exception): pass
class Pruned(Exception): pass
class Reschedule(Exception): pass
class Unwind(Exception): pass
class Inconclusive(Exception): pass


class Layout:
    def __init__(self, m): self.m = m; self.cache = {}
    def sa(self, t):
        k = t.key(); r = self.cache.get(k)
        if r: return r
        if t.k == 'int':
            n = (t.a + 7) // 8; s = 1
            while s < n: s *= 2
            r = (s, min(s, 8) if s <= 8 else 16)
        elif t.k == 'ptr': r = (8, 8)
        elif t.k == 'double': r = (8, 8)
        elif t.k == 'float': r = (4, 4)
        elif t.k == 'x86_fp80': r = (16, 16)
        elif t.k == 'arr':
            s, a = self.sa(t.b); r = (s * t.a, a)
        elif t.k == 'named':
            b = self.m.types[t.a]
            if b is None: raise NotImplementedError('sizeof opaque ' + t.a)
            r = self.sa(b)
        elif t.k == 'struct':
            off = 0; al = 1
            for ft in t.a:
                s, a = self.sa(ft)
                if t.b: a = 1
                off = (off + a - 1) // a * a; off += s; al = max(al, a)
            r = ((off + al - 1) // al * al, al)
        elif t.k == 'vec':
            s, a = self.sa(t.b); r = (s * t.a, s * t.a)
        else: raise NotImplementedError(k)
        self.cache[k] = r; return r
    def field_off(self, t, i):
        if t.k == 'named': t = self.m.types[t.a]
        key = ('f', t.key(), i); r = self.cache.get(key)
        if r: return r
        off = 0
        for j, ft in enumerate(t.a):
            s, a = self.sa(ft)
            if t.b: a = 1
            off = (off + a - 1) // a * a
            if j == i:
                self.cache[key] = (off, ft); return off, ft
            off += s
        raise IndexError


NULL = (0, 0)

class Bad:
    """poison-like value: non-pointer data loaded with pointer type (LLVM may speculate such loads and comparisons on them and
    discard the result). It propagates through pure operations; using it (dereference, branch, assertion) is a violation."""
    __slots__ = ('info',)
    def __init__(self, info): self.info = info
    def __repr__(self): return 'Bad(%s)' % self.info
def bad_use(v, what):
    return Violation('%s depends on %s used as a pointer (type confusion / uninitialised pointer)' % (what, v.info), 'memory')
def is_ptr(v): return type(v) is tuple
def is_sym(v): return isinstance(v, z3.ExprRef)


class Obj:
    __slots__ = ('size', 'cells', 'freed', 'kind', 'name', 'seq')
    def __init__(self, size, kind, name='', seq=0):
        self.size = size; self.cells = {}; self.freed = False; self.kind = kind; self.name = name; self.seq = seq
    def clone(self):
        o = Obj(self.size, self.kind, self.name, self.seq); o.cells = dict(self.cells); o.freed = self.freed; return o


class Frame:
    __slots__ = ('f', 'blk', 'bn', 'ip', 'loc', 'allocas')
    def __init__(self, f):
        self.f = f; self.bn = f.entry; self.blk = f.blocks[self.bn]; self.ip = 0; self.loc = {}; self.allocas = []
    def clone(self):
        n = Frame.__new__(Frame); n.f = self.f; n.bn = self.bn; n.blk = self.blk; n.ip = self.ip; n.loc = dict(self.loc); n.allocas = list(self.allocas); return n


class Thread:
    __slots__ = ('stack', 'status', 'cv', 'relock', 'timed', 'wres', 'spin', 'rets', 'fresh')
    def __init__(self): self.stack = []; self.status = 'ready'; self.cv = None; self.relock = None; self.timed = False; self.wres = 1; self.spin = None; self.rets = (1, 0); self.fresh = False
    def clone(self):
        t = Thread(); t.stack = [f.clone() for f in self.stack]; t.status = self.status; t.cv = self.cv; t.relock = self.relock; t.timed = self.timed; t.wres = self.wres; t.spin = self.spin; t.rets = self.rets; t.fresh = self.fresh; return t


class State:
    def __init__(self):
        self.mem = {}; self.own = set(); self.threads = [Thread()]; self.cur = 0; self.resumed = False
        self.mutexes = {}; self.pc = []; self.model = None; self.next_obj = 1; self.choices = []; self.obs = []
        self.cover = set(); self.nsym = 0; self.steps = 0; self.nalloc = 0; self.preempt = 0; self.faults = 0
        self.exc = None; self.caught = []; self.tids = {}; self.abandoned = False; self.tags = set(); self.live_heap = 0; self.shared = {}; self.spawn_mark = 0; self.ptrue = {}; self.pfalse = {}; self.lastread = None
    @property
    def stack(self): return self.threads[self.cur].stack
    def clone(self):
        s = State.__new__(State)
        s.mem = dict(self.mem); self.own = set(); s.own = set()
        s.threads = [t.clone() for t in self.threads]; s.cur = self.cur; s.resumed = self.resumed
        s.mutexes = dict(self.mutexes); s.pc = list(self.pc); s.model = self.model; s.next_obj = self.next_obj
        s.choices = list(self.choices); s.obs = list(self.obs); s.cover = set(self.cover); s.nsym = self.nsym
        s.steps = self.steps; s.nalloc = self.nalloc; s.preempt = self.preempt; s.faults = self.faults
        s.exc = self.exc; s.caught = list(self.caught); s.tids = dict(self.tids); s.abandoned = self.abandoned
        s.tags = set(self.tags); s.live_heap = self.live_heap; s.shared = dict(self.shared); s.spawn_mark = self.spawn_mark; s.ptrue = dict(self.ptrue); s.pfalse = dict(self.pfalse); s.lastread = self.lastread
        return s


SYNC = {'vf_mutex_lock', 'vf_mutex_unlock', 'vf_cv_wait', 'vf_cv_wait_for', 'vf_cv_notify_one', 'vf_cv_notify_all',
        'vf_atomic_point', 'eventpp_verif_point', 'vf_join_all', 'vf_yield',
        'pthread_mutex_lock', 'pthread_mutex_unlock', 'pthread_mutex_trylock'}
NOSCHED_ORD = ('monotonic', 'unordered')


class Engine:
    def __init__(self, m, entry='harness', max_faults=1, max_preempt=2, max_path_steps=400000, max_enum=64,
                 solver_timeout_ms=20000, single_threaded_libc=True, shared_points=False, harness_roots=None, linecov=False):
        self.m = m; self.lay = Layout(m); self.entry = entry
        self.max_faults = max_faults; self.max_preempt = max_preempt; self.max_path_steps = max_path_steps; self.max_enum = max_enum
        self.solver_timeout_ms = solver_timeout_ms; self.shared_points = shared_points; self.linecov = linecov
        self.harness_roots = [os.path.realpath(r).rstrip('/') + '/' for r in (harness_roots or [os.path.dirname(os.path.dirname(os.path.abspath(__file__)))])]
        self.reset_stats()
        self.fobj = {}; self.gobj = {}; self.base = {}
        self.init_state = State(); st = self.init_state
        for f in m.funcs.values():
            f.is_lib = '7eventpp' in f.name
            if f.defined:
                f.entry = next(iter(f.blocks))
        for name in m.funcs:
            oid = st.next_obj; st.next_obj += 1
            self.base[oid] = Obj(1, 'func', name); self.fobj[name] = oid
        self.fname = {v: k for k, v in self.fobj.items()}
        for name, (ty, init, const) in m.globals.items():
            if name.startswith('llvm.'): continue
            oid = st.next_obj; st.next_obj += 1
            try: sz = self.lay.sa(ty)[0]
            except NotImplementedError: sz = 8
            self.base[oid] = Obj(sz, 'global', name); self.gobj[name] = oid
        self.sbase = dict(self.base)   # mem used while initialising
        for name, (ty, init, const) in m.globals.items():
            if name.startswith('llvm.') or init is None: continue
            self.store_const(self.base[self.gobj[name]], 0, ty, init)
        if '__libc_single_threaded' in self.gobj:
            o = self.base[self.gobj['__libc_single_threaded']]; o.cells[0] = (1 if single_threaded_libc else 0, 1)
        self.prepare()

    def reset_stats(self):
        self.steps = 0; self.paths = 0; self.queries = 0; self.qtime = 0.0; self.forks = 0; self.qcache = {}
        self.violations = []; self.cover_wit = {}; self.fcalls = collections.Counter(); self.samples = []
        self.inconclusive = []; self.solver = None; self.max_steps_seen = 0; self.ended = 0; self.pruned = 0; self.xq = []
        self.sched_points = 0; self.max_threads = 1; self.cache_hits = 0; self.deadlocks = 0

    # ------------------------------------------------------------------ preparation
    def prepare(self):
        """pre-evaluate constant operands; attach handlers."""
        H = {
            'load': self.i_load, 'store': self.i_store, 'getelementptr': self.i_gep, 'bitcast': self.i_copy, 'addrspacecast': self.i_copy,
            'freeze': self.i_copy, 'ptrtoint': self.i_copy, 'inttoptr': self.i_copy, 'zext': self.i_ext, 'sext': self.i_ext, 'trunc': self.i_ext,
            'icmp': self.i_icmp, 'select': self.i_select, 'br': self.i_br, 'switch': self.i_switch, 'alloca': self.i_alloca,
            'call': self.do_call, 'invoke': self.do_call, 'ret': self.i_ret, 'extractvalue': self.i_extractvalue,
            'insertvalue': self.i_insertvalue, 'atomicrmw': self.i_atomicrmw, 'cmpxchg': self.i_cmpxchg, 'fence': self.i_nop,
            'resume': self.i_resume, 'unreachable': self.i_unreachable, 'landingpad': self.i_nop,
        }
        for b in BINOPS: H[b] = self.i_binop
        def kc(v):
            if v is None or v.k in ('local', 'kconst'): return v
            if v.t is not None and v.t.k in ('float', 'double', 'x86_fp80'):
                return V('kconst', v.t, ('fp', v.a))
            if v.k in ('undef',):
                if v.t.k in ('struct', 'named', 'arr'): return V('kconst', v.t, None)
                return V('kconst', v.t, NULL if v.t.k == 'ptr' else 0)
            if v.k == 'zero' and v.t.k not in ('int', 'ptr'): return V('kconst', v.t, None)
            return V('kconst', v.t, self.const(v))
        for f in self.m.funcs.values():
            if not f.defined: continue
            for bn, blk in f.blocks.items():
                for ins in blk:
                    h = H.get(ins.op)
                    if h is None and ins.op != 'phi': raise NotImplementedError('instruction ' + ins.op)
                    ins.h = h
                    ins.ops = [kc(o) for o in ins.ops]
                    if ins.op == 'phi': ins.x = [(kc(v), lb) for v, lb in ins.x]
                    elif ins.op in ('call', 'invoke'):
                        cal = ins.x['callee']
                        if cal.k not in ('local', 'global'): ins.x['callee'] = kc(cal)
                    elif ins.op == 'load': ins.c = ('agg', ins.ty) if ins.ty.k in ('struct', 'named', 'arr', 'vec') else (self.lay.sa(ins.ty)[0], ins.ty.k == 'ptr')
                    elif ins.op == 'store': ins.c = ('agg', ins.ops[0].t) if ins.ops[0].t.k in ('struct', 'named', 'arr', 'vec') else self.lay.sa(ins.ops[0].t)[0]
                    elif ins.op == 'getelementptr':
                        ins.c = self.gep_plan(ins.x, ins.ops[1:])
                    elif ins.op == 'switch':
                        d, cases = ins.x
                        ins.c = {(cv.a & ((1 << cv.t.a) - 1)): lb for cv, lb in cases}
        # library / harness classification of every instruction from the debug line tables (only present in shared_points runs)
        md = self.m.md
        if md:
            fcls = {}
            def file_cls(fid):
                if fid is None or fid not in md: return None
                fn = os.path.normpath(md[fid][4] or '')
                if '/include/eventpp/' in fn: return 1
                if any(fn.startswith(r) or os.path.realpath(fn).startswith(r) for r in self.harness_roots): return 0
                return None
            def node_cls(nid):
                c = fcls.get(nid, -1)
                if c != -1: return c
                n = md.get(nid); c = None
                if n is not None:
                    kind, sc, fi, ia, _, _ln = n
                    if kind == 'DILocation':
                        c = node_cls(sc)
                        if c is None and ia is not None: c = node_cls(ia)
                    else:
                        c = file_cls(fi)
                        if c is None and kind != 'DISubprogram' and sc is not None: c = node_cls(sc)
                fcls[nid] = c; return c
            for f in self.m.funcs.values():
                if not f.defined: continue
                f.cls = node_cls(f.dbg) if getattr(f, 'dbg', None) is not None else None
                for blk in f.blocks.values():
                    for ins in blk:
                        c = node_cls(ins.dbg) if ins.dbg is not None else None
                        ins.lib = c if c is not None else f.cls
        # which IR atomics are scheduling points in thread mode. Without line tables: by memory ordering (acq_rel read-modify-writes, cmpxchg and
        # monotonic loads are libstdc++'s shared_ptr / weak_ptr reference counting; everything eventpp itself uses is seq_cst / acquire / release).
        # With line tables the owner of the atomic is known: skip the frames of the inline chain that lie in the <atomic> headers; if the next frame is
        # eventpp or harness code the atomic is the user's and is a scheduling point whatever its ordering (a test-and-test-and-set SpinLock spins on a
        # relaxed load and takes the lock with a compare-exchange).
        ATOMIC_HDRS = ('atomic', 'atomic_base.h', 'atomicity.h', 'atomic_word.h', 'atomic_futex.h', 'atomic_wait.h')
        own_cache = {}
        def atomic_owner(nid):
            """True: user (eventpp / harness) code issued this atomic; False: library code did; None: unknown"""
            seen = 0
            while nid is not None and seen < 64:
                seen += 1
                n = md.get(nid)
                if n is None or n[0] != 'DILocation': return None
                sc = n[1]; fn = None
                while sc is not None and sc in md:
                    m_ = md[sc]
                    if m_[2] is not None and m_[2] in md: fn = md[m_[2]][4]; break
                    sc = m_[1]
                if fn is None: return None
                if os.path.basename(fn) in ATOMIC_HDRS: nid = n[3]; continue
                fn = os.path.normpath(fn)
                return ('/include/eventpp/' in fn) or any(fn.startswith(r) or os.path.realpath(fn).startswith(r) for r in self.harness_roots)
            return None
        for f in self.m.funcs.values():
            if not f.defined: continue
            for blk in f.blocks.values():
                for ins in blk:
                    op = ins.op
                    if op == 'atomicrmw': byord = ins.c != 'acq_rel'
                    elif op == 'cmpxchg': byord = False
                    elif (op == 'load' or op == 'store') and ins.x is not None: byord = ins.x not in NOSCHED_ORD
                    else: continue
                    own = atomic_owner(ins.dbg) if (md and ins.dbg is not None) else None
                    ins.sp = bool(byord or own)
        # line keys (only in line-coverage mode, tools/linecov.py): instruction -> index into self.lines [(eventpp header, line)]
        self.lines = []; self.cov = set()
        if md and self.linecov:
            lidx = {}; scf = {}
            def scope_file(nid):
                if nid in scf: return scf[nid]
                n = md.get(nid); r = None
                if n is not None:
                    r = md[n[2]][4] if n[2] is not None and n[2] in md else (scope_file(n[1]) if n[1] is not None else None)
                scf[nid] = r; return r
            for f in self.m.funcs.values():
                if not f.defined: continue
                for blk in f.blocks.values():
                    for ins in blk:
                        n = md.get(ins.dbg) if ins.dbg is not None else None
                        if n is None or n[0] != 'DILocation' or not n[5]: continue
                        fn = scope_file(n[1])
                        if not fn or '/include/eventpp/' not in fn: continue
                        key = (os.path.normpath(fn).split('/include/eventpp/')[1], n[5])
                        if key not in lidx: lidx[key] = len(self.lines); self.lines.append(key)
                        ins.lk = lidx[key]
        # phi tables: per block, per predecessor
        for f in self.m.funcs.values():
            if not f.defined: continue
            f.phis = {}
            for bn, blk in f.blocks.items():
                i = 0; tab = {}
                while blk[i].op == 'phi':
                    for v, lb in blk[i].x: tab.setdefault(lb, []).append((blk[i].res, v))
                    i += 1
                f.phis[bn] = (i, tab)

    def gep_plan(self, bt, idx):
        """(constant byte offset, [(stride, operand), ...]) for a getelementptr"""
        off = 0; dyn = []; cur = bt
        def add(ix, stride):
            nonlocal off
            if ix.k == 'kconst' and type(ix.a) is int: off += sx(ix.a, ix.t.a if ix.t is not None and ix.t.k == 'int' else 64) * stride
            else: dyn.append((stride, ix))
        add(idx[0], self.lay.sa(bt)[0])
        for ix in idx[1:]:
            r = cur
            if r.k == 'named': r = self.m.types[r.a]
            if r.k == 'struct':
                o, ft = self.lay.field_off(r, ix.a); off += o; cur = ft
            else:
                add(ix, self.lay.sa(r.b)[0]); cur = r.b
        return (off, dyn)

    # ------------------------------------------------------------------ constants
    def store_const(self, o, off, ty, v):
        if v.k == 'zero':
            sz = self.lay.sa(ty)[0]
            for i in range(sz): o.cells[off + i] = (0, 1)
            return
        if v.k == 'agg':
            r = ty
            if r.k == 'named': r = self.m.types[r.a]
            if r.k == 'struct':
                for i, e in enumerate(v.a):
                    fo, ft = self.lay.field_off(r, i); self.store_const(o, off + fo, ft, e)
            else:
                es = self.lay.sa(r.b)[0]
                for i, e in enumerate(v.a): self.store_const(o, off + i * es, r.b, e)
            return
        if v.k == 'cstr':
            for i, b in enumerate(cstr_bytes(v.a)): o.cells[off + i] = (b, 1)
            return
        if v.k == 'undef': return
        val = self.const(v)
        o.cells[off] = (val, self.lay.sa(ty)[0])

    def const(self, v):
        if v.k == 'int': return v.a & ((1 << v.t.a) - 1) if v.t is not None and v.t.k == 'int' else v.a
        if v.k == 'null': return NULL
        if v.k == 'global':
            if v.a in self.gobj: return (self.gobj[v.a], 0)
            if v.a in self.fobj: return (self.fobj[v.a], 0)
            raise NotImplementedError('unknown global ' + v.a)
        if v.k == 'cast':
            x = self.const(v.b)
            if v.a in ('bitcast', 'addrspacecast', 'inttoptr', 'ptrtoint'): return x
            if v.a in ('trunc', 'zext') and not is_ptr(x): return x & ((1 << v.t.a) - 1)
            raise NotImplementedError('const cast ' + v.a)
        if v.k == 'gep':
            base = self.const(v.b); return self.gep_calc(v.a, base, [self.const(i) for i in v.c])
        if v.k == 'fp': return ('fp', v.a)
        if v.k == 'undef': return 0 if v.t.k != 'ptr' else NULL
        if v.k == 'zero' and v.t.k == 'int': return 0
        if v.k == 'zero' and v.t.k == 'ptr': return NULL
        if v.k == 'kconst': return v.a
        if v.k == 'agg': return [self.const(e) for e in v.a]
        if v.k == 'zero': return None
        raise NotImplementedError('const ' + v.k)

    def gep_calc(self, bt, base, idx):
        off = base[1]; cur = bt
        off += sx(idx[0], 64) * self.lay.sa(bt)[0]
        for ix in idx[1:]:
            r = cur
            if r.k == 'named': r = self.m.types[r.a]
            if r.k == 'struct':
                o, ft = self.lay.field_off(r, ix); off += o; cur = ft
            else:
                off += sx(ix, 64) * self.lay.sa(r.b)[0]; cur = r.b
        return (base[0], off)

    # ------------------------------------------------------------------ memory
    def robj(self, st, p, what):
        if type(p) is not tuple:
            if type(p) is Bad: raise bad_use(p, what)
            if is_sym(p): raise Violation('%s through symbolic non-pointer data (type confusion / wild pointer)' % what, 'memory')
            if p == 0: raise Violation('%s: null pointer dereference' % what, 'memory')
            raise Violation('%s through non-pointer value %r' % (what, p), 'memory')
        o = st.mem.get(p[0])
        if o is None:
            o = self.base.get(p[0])
            if o is None:
                raise Violation('%s: null/invalid pointer (offset %d)' % (what, p[1]), 'memory')
        if o.freed: raise Violation('%s: use after %s of %s object %s' % (what, 'free' if o.kind == 'heap' else 'scope', o.kind, o.name), 'memory')
        if o.kind == 'func': raise Violation('%s: data access to function' % what, 'memory')
        return o

    def wobj(self, st, p, what):
        o = self.robj(st, p, what)
        if p[0] not in st.own:
            o = o.clone(); st.mem[p[0]] = o; st.own.add(p[0])
        return o

    def store(self, st, p, val, w):
        o = self.wobj(st, p, 'store'); off = p[1]
        if off < 0 or off + w > o.size: raise Violation('store out of bounds: offset %d width %d in %s object of size %d (%s)' % (off, w, o.kind, o.size, o.name), 'memory')
        c = o.cells; e = c.get(off)
        if e is None or e[1] != w or w > 1: self.clear_range(o, off, w)
        c[off] = (val, w)

    def split_cell(self, o, k):
        """replace cell at k (width>1) by byte cells"""
        v, cw = o.cells.pop(k)
        for i in range(cw): o.cells[k + i] = (byte_of(v, i, cw), 1)

    def clear_range(self, o, off, w):
        """make sure no cell overlaps [off,off+w) partially; remove cells inside it"""
        c = o.cells
        for k in range(off - 15, off):
            e = c.get(k)
            if e is not None and k + e[1] > off: self.split_cell(o, k)
        for k in range(off, off + w):
            e = c.get(k)
            if e is not None:
                if k + e[1] > off + w: self.split_cell(o, k)
        for k in range(off, off + w): c.pop(k, None)

    def load(self, st, p, w, isptr):
        o = self.robj(st, p, 'load'); off = p[1]
        if off < 0 or off + w > o.size: raise Violation('load out of bounds: offset %d width %d in %s object of size %d (%s)' % (off, w, o.kind, o.size, o.name), 'memory')
        c = o.cells.get(off)
        if c is not None and c[1] == w:
            v = c[0]
            if isptr and type(v) is not tuple:
                if type(v) is int:
                    if v == 0: return NULL
                    return Bad('non-pointer value %#x' % v)
                # LLVM may speculate such a load and discard the value: the error is raised when the value is used
                return Bad('symbolic non-pointer data')
            return v
        bs = []
        for i in range(w):
            b = None; e = o.cells.get(off + i)
            if e is not None and e[1] == 1: b = e[0]
            else:
                for k in range(off + i, off + i - 16, -1):
                    e = o.cells.get(k)
                    if e is not None:
                        if k + e[1] > off + i: b = byte_of(e[0], off + i - k, e[1])
                        break
            if b is None:
                # never written: fresh symbolic byte (uninitialised storage)
                o2 = self.wobj(st, p, 'load')
                b = z3.BitVec('uninit_%s%d_%d_%d' % (o.kind[0], o.seq, off + i, st.nsym), 8); st.nsym += 1
                o2.cells[off + i] = (b, 1); o = o2
                st.tags.add('uninit-read')
            bs.append(b)
        for b in bs:
            if type(b) is Bad: return b
        if all(type(b) is int for b in bs):
            v = 0
            for i, b in enumerate(bs): v |= b << (8 * i)
            if isptr:
                if v == 0: return NULL
                return Bad('non-pointer value %#x' % v)
            return v
        if type(bs[0]) is tuple and bs[0][0] == 'ptrbyte':
            if w == 8 and all(type(b) is tuple and b[0] == 'ptrbyte' and b[1] == bs[0][1] and b[2] == i for i, b in enumerate(bs)): return bs[0][1]
        if any(type(b) is tuple for b in bs):
            if isptr: return Bad('a mix of pointer bytes and data bytes')
            raise Violation('load mixes pointer bytes with data bytes (type confusion)', 'memory')
        if isptr: return Bad('symbolic non-pointer data')
        e = None
        for b in reversed(bs):
            bb = z3.BitVecVal(b, 8) if type(b) is int else b
            e = bb if e is None else z3.Concat(e, bb)
        return z3.simplify(e)

    def agg_fields(self, t):
        r = t
        if r.k == 'named': r = self.m.types[r.a]
        if r.k == 'struct': return [self.lay.field_off(r, i) for i in range(len(r.a))]
        if r.k == 'vec': r = T('arr', r.a, r.b)
        es = self.lay.sa(r.b)[0]
        return [(i * es, r.b) for i in range(r.a)]

    def load_agg(self, st, p, t):
        out = []
        for off, ft in self.agg_fields(t):
            q = (p[0], p[1] + off) if type(p) is tuple else p
            if ft.k in ('struct', 'named', 'arr'): out.append(self.load_agg(st, q, ft))
            else: out.append(self.load(st, q, self.lay.sa(ft)[0], ft.k == 'ptr'))
        return out

    def store_agg(self, st, p, t, v):
        for (off, ft), x in zip(self.agg_fields(t), v):
            q = (p[0], p[1] + off) if type(p) is tuple else p
            if ft.k in ('struct', 'named', 'arr'): self.store_agg(st, q, ft, x if x is not None else self.agg_default(ft))
            else: self.store(st, q, x if x is not None else 0, self.lay.sa(ft)[0])

    def alloc(self, st, size, kind, name=''):
        oid = st.next_obj; st.next_obj += 1
        if is_sym(size): raise Inconclusive('symbolic allocation size')
        o = Obj(size, kind, name, st.nalloc if kind == 'heap' else oid); st.mem[oid] = o; st.own.add(oid)
        if kind == 'heap': st.nalloc += 1; st.live_heap += 1
        return (oid, 0)

    def free_obj(self, st, oid):
        o = st.mem.get(oid)
        if oid not in st.own:
            o = o.clone(); st.mem[oid] = o; st.own.add(oid)
        o.freed = True; o.cells = {}

    # ------------------------------------------------------------------ solver
    def get_solver(self):
        if self.solver is None:
            self.solver = z3.Solver(); self.solver.set('timeout', self.solver_timeout_ms)
        return self.solver

    def sat(self, st, extra):
        """is pc /\\ extra satisfiable? returns (bool, model or None)"""
        if extra is not None:
            se = z3.simplify(extra)
            if z3.is_false(se): return False, None
            if z3.is_true(se): extra = None
        if st.model is not None:
            if extra is None: return True, st.model
            try:
                if z3.is_true(st.model.eval(extra, model_completion=True)): return True, st.model
            except z3.Z3Exception: pass
        key = (tuple(c.get_id() for c in st.pc), extra.get_id() if extra is not None else None)
        r = self.qcache.get(key)
        if r is not None:
            self.cache_hits += 1; return r[0], r[1]
        t0 = time.time(); s = self.get_solver(); s.push()
        try:
            for c in st.pc: s.add(c)
            if extra is not None: s.add(extra)
            res = s.check(); self.queries += 1
            if len(self.xq) < 3 and self.queries % 13 == 1 and res != z3.unknown:
                try: self.xq.append((s.to_smt2(), str(res)))        # sampled for the second-solver cross-check (driver: cvc5)
                except Exception: pass
            if res == z3.sat: out = (True, s.model(), extra, st.pc[:])
            elif res == z3.unsat: out = (False, None, extra, None)
            else: raise Inconclusive('solver returned %s (%s)' % (res, s.reason_unknown()))
        finally:
            s.pop(); self.qtime += time.time() - t0
        self.qcache[key] = out
        return out[0], out[1]

    def add_pc(self, st, c, model=None):
        st.pc.append(c)
        # syntactic facts: the asserted constraint (by AST id) is true; if it is a negation, its argument is false
        # (the dict values keep the ASTs alive: z3 reuses the ids of collected expressions)
        st.ptrue[c.get_id()] = c
        if z3.is_not(c):
            a0 = c.arg(0); st.pfalse[a0.get_id()] = a0
        if model is not None: st.model = model
        elif st.model is not None:
            try:
                if not z3.is_true(st.model.eval(c, model_completion=True)): st.model = None
            except z3.Z3Exception: st.model = None

    def as_bool(self, c):
        if z3.is_bool(c): return c
        return c != 0

    def branch(self, st, work, c):
        """fork on symbolic i1/bool; returns the outcome for the current state"""
        c = self.as_bool(c)
        cid = c.get_id()
        if cid in st.ptrue: return 1
        if cid in st.pfalse: return 0
        sc = z3.simplify(c)
        if z3.is_true(sc): return 1
        if z3.is_false(sc): return 0
        t, mt = self.sat(st, c); f, mf = self.sat(st, z3.Not(c))
        if t and f:
            o = st.clone(); self.add_pc(o, z3.Not(c), mf); o.choices.append(('br', 0)); work.append(o); self.forks += 1
            self.add_pc(st, c, mt); st.choices.append(('br', 1)); return 1
        if t:
            st.ptrue[cid] = c; return 1      # implied by the path condition: remember it (facts stay valid as pc only grows)
        if f:
            st.pfalse[cid] = c; return 0
        raise PathEnd()

    def concretize(self, st, work, v, bits):
        sv = z3.simplify(v)
        if z3.is_bv_value(sv): return sv.as_long()
        vals = []; s = self.get_solver(); s.push()
        try:
            for c in st.pc: s.add(c)
            while len(vals) <= self.max_enum:
                r = s.check(); self.queries += 1
                if r == z3.unsat: break
                if r != z3.sat: raise Inconclusive('solver unknown in concretize')
                x = s.model().eval(v, model_completion=True).as_long(); vals.append(x); s.add(v != x)
        finally: s.pop()
        if len(vals) > self.max_enum: raise Inconclusive('symbolic index/switch value has more than %d feasible values' % self.max_enum)
        if not vals: raise PathEnd()
        for x in vals[1:]:
            o = st.clone(); self.add_pc(o, v == x); o.choices.append(('enum', x)); work.append(o); self.forks += 1
        self.add_pc(st, v == vals[0]); st.choices.append(('enum', vals[0])); return vals[0]

    # ------------------------------------------------------------------ evaluation helpers
    def val(self, fr, v):
        if v.k == 'local': return fr.loc[v.a]
        return v.a

    def tobv(self, v, bits):
        if is_sym(v):
            if z3.is_bool(v): return z3.If(v, z3.BitVecVal(1, bits), z3.BitVecVal(0, bits))
            return v
        if type(v) is Bad: raise bad_use(v, 'arithmetic')
        if type(v) is tuple: raise Inconclusive('pointer used in symbolic arithmetic')
        return z3.BitVecVal(v, bits)

    def jump(self, fr, tgt):
        f = fr.f; n, tab = f.phis[tgt]
        if n:
            lst = tab.get(fr.bn)
            if lst is None: raise RuntimeError('phi without incoming for %s -> %s in %s' % (fr.bn, tgt, f.name))
            loc = fr.loc
            vals = [(r, (loc[v.a] if v.k == 'local' else v.a)) for r, v in lst]
            for r, x in vals: loc[r] = x
        fr.bn = tgt; fr.blk = f.blocks[tgt]; fr.ip = n

    # ------------------------------------------------------------------ main loop
    def explore(self, work, max_paths=10**12, deadline=None, fifo_until=None):
        """explore all states in work (DFS). fifo_until: stop when len(work) >= fifo_until (BFS seeding)."""
        while work and self.paths < max_paths:
            if fifo_until is not None:
                if len(work) >= fifo_until: return
                st = work.pop(0)
            else: st = work.pop()
            if deadline is not None and time.time() > deadline:
                self.inconclusive.append('time budget exhausted with %d states unexplored' % (len(work) + 1)); return
            try:
                self.exec_path(st, work)
            except PathEnd:
                self.finish_path(st)
            except Pruned:
                pass
            except Violation as e:
                self.record_violation(st, e)
            except Inconclusive as e:
                self.inconclusive.append(str(e) + ' @ ' + self.where(st))
            except NotImplementedError as e:
                self.inconclusive.append('engine: unsupported: %s @ %s' % (e, self.where(st)))
            self.paths += 1
            self.steps += st.steps - getattr(st, 'steps0', 0)
            if st.steps > self.max_steps_seen: self.max_steps_seen = st.steps

    def where(self, st):
        try:
            fr = st.stack[-1]; return '%s:%s:%d' % (fr.f.name, fr.bn, fr.ip)
        except Exception: return '?'

    def finish_path(self, st):
        self.ended += 1
        for g in st.cover:
            if g not in self.cover_wit: self.cover_wit[g] = self.make_replay(st, None)
        if len(self.samples) < 6 and (self.paths % 97 == 0 or len(self.samples) < 2): self.samples.append(self.make_replay(st, None))

    def record_violation(self, st, e):
        rp = self.make_replay(st, e.model)
        rp['violation'] = {'msg': e.msg, 'kind': e.kind, 'aid': e.aid, 'where': self.where(st), 'tags': sorted(st.tags)}
        self.violations.append(rp)

    def make_replay(self, st, model):
        """serialisable description of the path: choices with symbolic inputs resolved by a model of pc"""
        if model is None:
            ok, model = self.sat(st, None)
            if not ok: model = None
        def ev(x):
            if is_sym(x):
                if model is None: return None
                r = model.eval(x, model_completion=True)
                try: return r.as_long()
                except Exception: return 1 if z3.is_true(r) else 0
            if type(x) is tuple: return 'ptr'
            return x
        out = []
        for c in st.choices:
            k = c[0]
            if k == 'sym': out.append(['sym', c[2], ev(c[1])])
            elif k == 'havoc': out.append(['havoc', [ev(b) for b in c[1]]])
            else: out.append([k, c[1]])
        heapfill = []
        if model is not None:
            for d in model.decls():
                n = d.name()
                if n.startswith('uninit_h'):
                    parts = n.split('_'); heapfill.append([int(parts[1][1:]), int(parts[2]), model[d].as_long()])
        return {'choices': out, 'obs': [[t, ev(v)] for t, v in st.obs], 'cover': sorted(st.cover), 'heapfill': heapfill, 'steps': st.steps}

    def exec_path(self, st, work):
        st.steps0 = st.steps
        limit = self.max_path_steps
        if self.linecov:
            cov = self.cov
            while True:
                fr = st.threads[st.cur].stack[-1]
                ins = fr.blk[fr.ip]
                st.steps += 1
                if st.steps > limit: raise Violation('path exceeded %d IR steps (non-termination?)' % limit, 'nonterm')
                if ins.lk is not None: cov.add(ins.lk)
                ins.h(st, work, fr, ins)
        while True:
            fr = st.threads[st.cur].stack[-1]
            ins = fr.blk[fr.ip]
            st.steps += 1
            if st.steps > limit: raise Violation('path exceeded %d IR steps (non-termination?)' % limit, 'nonterm')
            ins.h(st, work, fr, ins)

    # ------------------------------------------------------------------ instruction handlers
    def i_nop(self, st, work, fr, ins): fr.ip += 1

    def mt_point(self, st, work, fr):
        """scheduling point for IR-level atomics in multi-thread mode; returns True if rescheduled (instruction must be re-run)"""
        if len(st.threads) > 1:
            if not st.resumed:
                self.schedule(st, work); return True
            st.resumed = False
        return False

    def shared_point(self, st, work, fr, p):
        """automatic scheduling point: plain access, from eventpp code, to a heap/global object another thread has touched"""
        if type(p) is not tuple: return False
        oid = p[0]; m = st.shared.get(oid)
        if m is None: m = 1 if oid < st.spawn_mark else 0      # objects that existed when the first thread was spawned count as touched by main
        bit = 1 << st.cur
        if not m & bit:
            o = st.mem.get(oid) or self.base.get(oid)
            if o is None or o.kind == 'stack' or o.kind == 'func': return False
            st.shared[oid] = m | bit
        if m & ~bit and self.is_lib_access(st, fr):
            if not st.resumed:
                self.schedule(st, work); return True
            st.resumed = False
        return False

    def is_lib_access(self, st, fr):
        """is the current instruction eventpp code (as opposed to harness / policy bookkeeping)? decided from the debug line
        tables: innermost non-system file of the inline chain, else of the function, else of the nearest non-system caller"""
        c = fr.blk[fr.ip].lib
        if c is not None: return c == 1
        stack = st.threads[st.cur].stack
        for k in range(len(stack) - 2, -1, -1):
            f2 = stack[k]; c = f2.blk[f2.ip].lib
            if c is not None: return c == 1
        return False

    def i_load(self, st, work, fr, ins):
        if ins.sp and self.mt_point(st, work, fr): return
        v = ins.ops[0]; p = fr.loc[v.a] if v.k == 'local' else v.a
        if self.shared_points and len(st.threads) > 1 and ins.x is None and self.shared_point(st, work, fr, p): return
        if ins.c[0] == 'agg': fr.loc[ins.res] = self.load_agg(st, p, ins.c[1])
        else:
            fr.loc[ins.res] = x = self.load(st, p, ins.c[0], ins.c[1])
            if ins.sp and len(st.threads) > 1: self.spin_read(st, ins, p, x, ins.c[0])
        fr.ip += 1

    def spin_read(self, st, ins, p, x, w):
        """spin detection: the running thread has read the same value with the same atomic instruction twice in a row without anybody (itself included)
        having written shared memory in between: it is spinning on that location and is not enabled again until the location changes"""
        if is_sym(x) or type(x) is not int: st.lastread = None; return
        key = (st.cur, id(ins), p, x)
        lr = st.lastread
        if lr is not None and lr[0] == key and st.steps - lr[1] <= 48:        # a tight loop, not a caller polling again after doing other work
            st.threads[st.cur].spin = (p, x, w); st.lastread = None
        else: st.lastread = (key, st.steps)

    def i_store(self, st, work, fr, ins):
        if ins.sp and self.mt_point(st, work, fr): return
        v = ins.ops[0]; x = fr.loc[v.a] if v.k == 'local' else v.a
        v = ins.ops[1]; p = fr.loc[v.a] if v.k == 'local' else v.a
        if st.lastread is not None and type(p) is tuple:
            o_ = st.mem.get(p[0]) or self.base.get(p[0])
            if o_ is None or o_.kind != 'stack': st.lastread = None
        if self.shared_points and len(st.threads) > 1 and ins.x is None and self.shared_point(st, work, fr, p): return
        if type(ins.c) is tuple:
            self.store_agg(st, p, ins.c[1], x if x is not None else self.agg_default(ins.c[1]))
        else:
            if x is None: x = 0
            self.store(st, p, x, ins.c)
        fr.ip += 1

    def i_gep(self, st, work, fr, ins):
        v = ins.ops[0]; base = fr.loc[v.a] if v.k == 'local' else v.a
        if type(base) is not tuple:
            if type(base) is Bad:
                fr.loc[ins.res] = base; fr.ip += 1; return
            if is_sym(base): raise Violation('address computation on symbolic non-pointer data (type confusion)', 'memory')
            if base == 0: base = NULL
            else: raise Violation('address computation on non-pointer %r' % (base,), 'memory')
        off, dyn = ins.c
        off += base[1]
        for stride, o in dyn:
            iv = fr.loc[o.a] if o.k == 'local' else o.a
            if type(iv) is not int:
                if is_sym(iv):
                    # an index the solver can drive outside the object it indexes is an out-of-bounds address computation (e.g. an indeterminate
                    # array index read from uninitialised storage): reported with a model, instead of enumerating its 2^n values
                    ob = st.mem.get(base[0]) if base[0] else None
                    if ob is not None and not ob.freed and ob.kind != 'func' and stride:
                        bv = self.tobv(iv, o.t.a); w = max(o.t.a, 64) + 8
                        tot = z3.SignExt(w - o.t.a, bv) * z3.BitVecVal(stride, w) + z3.BitVecVal(off, w)
                        bad, mdl = self.sat(st, z3.Or(tot < 0, tot > ob.size))
                        if bad: raise Violation('address computation out of bounds: symbolic index can leave the %s object of size %d (%s)' % (ob.kind, ob.size, ob.name), 'memory', model=mdl)
                    iv = self.concretize(st, work, iv, o.t.a)
                elif type(iv) is Bad:
                    fr.loc[ins.res] = iv; fr.ip += 1; return
                else: raise Inconclusive('pointer used as an index')
            off += sx(iv, o.t.a) * stride
        fr.loc[ins.res] = (base[0], off); fr.ip += 1

    def i_copy(self, st, work, fr, ins):
        fr.loc[ins.res] = self.val(fr, ins.ops[0]); fr.ip += 1

    def i_ext(self, st, work, fr, ins):
        op = ins.op; v = self.val(fr, ins.ops[0]); sb = ins.ops[0].t.a; db = ins.ty.a
        if type(v) is Bad:
            fr.loc[ins.res] = v; fr.ip += 1; return
        if is_sym(v):
            v = self.tobv(v, sb)
            if op == 'zext': r = z3.ZeroExt(db - sb, v)
            elif op == 'sext': r = z3.SignExt(db - sb, v)
            else: r = z3.Extract(db - 1, 0, v)
        elif type(v) is tuple:
            if op == 'trunc' and db < 64: raise Inconclusive('truncation of a pointer')
            r = v
        else:
            if op == 'sext': r = sx(v, sb) & ((1 << db) - 1)
            else: r = v & ((1 << db) - 1)
        fr.loc[ins.res] = r; fr.ip += 1

    def i_binop(self, st, work, fr, ins):
        a = self.val(fr, ins.ops[0]); b = self.val(fr, ins.ops[1])
        fr.loc[ins.res] = self.binop(st, ins.op, a, b, ins.ty.a, ins.x); fr.ip += 1

    def i_icmp(self, st, work, fr, ins):
        a = self.val(fr, ins.ops[0]); b = self.val(fr, ins.ops[1])
        fr.loc[ins.res] = self.icmp(ins.x, a, b, ins.ops[0].t); fr.ip += 1

    def i_select(self, st, work, fr, ins):
        c = self.val(fr, ins.ops[0])
        if type(c) is Bad: raise bad_use(c, 'select condition')
        if is_sym(c):
            if type(self.val(fr, ins.ops[1])) is Bad or type(self.val(fr, ins.ops[2])) is Bad: c = self.branch(st, work, c)
        if is_sym(c):
            a = self.val(fr, ins.ops[1]); b = self.val(fr, ins.ops[2])
            if type(a) is not tuple and type(b) is not tuple and ins.ty.k == 'int' and not isinstance(a, list) and not isinstance(b, list):
                bits = ins.ty.a
                if bits == 1:
                    A = self.as_bool(a) if is_sym(a) else z3.BoolVal(bool(a)); B = self.as_bool(b) if is_sym(b) else z3.BoolVal(bool(b))
                    fr.loc[ins.res] = z3.simplify(z3.If(self.as_bool(c), A, B)); fr.ip += 1; return
                fr.loc[ins.res] = z3.If(self.as_bool(c), self.tobv(a, bits), self.tobv(b, bits)); fr.ip += 1; return
            c = self.branch(st, work, c)
        fr.loc[ins.res] = self.val(fr, ins.ops[1] if c else ins.ops[2]); fr.ip += 1

    def i_br(self, st, work, fr, ins):
        x = ins.x
        if len(x) == 1: self.jump(fr, x[0])
        else:
            v = ins.ops[0]; c = fr.loc[v.a] if v.k == 'local' else v.a
            if type(c) is not int:
                if is_sym(c): c = self.branch(st, work, c)
                elif type(c) is Bad: raise bad_use(c, 'branch condition')
                else: c = 1   # pointer as condition cannot occur (i1)
            self.jump(fr, x[0] if c else x[1])

    def i_switch(self, st, work, fr, ins):
        v = self.val(fr, ins.ops[0])
        if type(v) is Bad: raise bad_use(v, 'switch')
        if is_sym(v): v = self.concretize(st, work, v, ins.ops[0].t.a)
        self.jump(fr, ins.c.get(v, ins.x[0]))

    def i_alloca(self, st, work, fr, ins):
        n = 1
        if ins.ops:
            n = self.val(fr, ins.ops[0])
            if is_sym(n): raise Inconclusive('symbolic alloca size')
        p = self.alloc(st, self.lay.sa(ins.x)[0] * n, 'stack', fr.f.name + ':%' + str(ins.res))
        fr.allocas.append(p[0]); fr.loc[ins.res] = p; fr.ip += 1

    def pop_frame(self, st, fr):
        for a in fr.allocas: self.free_obj(st, a)
        st.threads[st.cur].stack.pop()

    def i_ret(self, st, work, fr, ins):
        rv = self.val(fr, ins.ops[0]) if ins.ops else None
        self.pop_frame(st, fr)
        stack = st.threads[st.cur].stack
        if not stack:
            if st.cur == 0: raise PathEnd()
            st.threads[st.cur].status = 'done'; self.schedule(st, work); return
        cal = stack[-1]; cins = cal.blk[cal.ip]
        if cins.res is not None: cal.loc[cins.res] = rv
        if cins.op == 'invoke': self.jump(cal, cins.x['normal'])
        else: cal.ip += 1

    def i_extractvalue(self, st, work, fr, ins):
        a = self.val(fr, ins.ops[0])
        if a is None: a = self.agg_default(ins.ops[0].t)
        for i in ins.x: a = a[i]
        fr.loc[ins.res] = a; fr.ip += 1

    def agg_default(self, t):
        r = t
        if r.k == 'named': r = self.m.types[r.a]
        if r.k == 'struct': return [self.agg_default(x) for x in r.a]
        if r.k == 'arr' or r.k == 'vec': return [self.agg_default(r.b) for _ in range(r.a)]
        return NULL if r.k == 'ptr' else 0

    def i_insertvalue(self, st, work, fr, ins):
        a = self.val(fr, ins.ops[0]); b = self.val(fr, ins.ops[1])
        if not isinstance(a, list): a = self.agg_default(ins.ops[0].t)
        a = copy.deepcopy(a) if any(isinstance(x, list) for x in a) else list(a); cur = a
        for i in ins.x[:-1]: cur = cur[i]
        cur[ins.x[-1]] = b; fr.loc[ins.res] = a; fr.ip += 1

    def i_atomicrmw(self, st, work, fr, ins):
        # acq_rel read-modify-writes are libstdc++'s shared_ptr reference counts: executed atomically, never a scheduling point
        if ins.sp and self.mt_point(st, work, fr): return
        p = self.val(fr, ins.ops[0]); v = self.val(fr, ins.ops[1]); w = self.lay.sa(ins.ty)[0]
        old = self.load(st, p, w, False)
        new = v if ins.x == 'xchg' else self.binop(st, ins.x, old, v, ins.ty.a, ())
        # spin detection: an xchg that leaves memory unchanged and will be retried (SpinLock::lock)
        self.store(st, p, new, w); fr.loc[ins.res] = old; fr.ip += 1
        if len(st.threads) > 1 and ins.x == 'xchg' and not is_sym(old) and not is_sym(new) and old == new and old != 0:
            st.threads[st.cur].spin = (p, old, w)
        elif ins.sp: st.lastread = None

    def i_cmpxchg(self, st, work, fr, ins):
        if ins.sp and self.mt_point(st, work, fr): return
        p = self.val(fr, ins.ops[0]); c = self.val(fr, ins.ops[1]); n = self.val(fr, ins.ops[2]); w = self.lay.sa(ins.ops[1].t)[0]
        old = self.load(st, p, w, False); eq = self.icmp('eq', old, c, ins.ops[1].t)
        if is_sym(eq): eq = self.branch(st, work, eq)
        if eq: self.store(st, p, n, w); st.lastread = None
        elif ins.sp and len(st.threads) > 1: self.spin_read(st, ins, p, old, w)       # a failed compare-exchange is a read
        fr.loc[ins.res] = [old, 1 if eq else 0]; fr.ip += 1

    def i_resume(self, st, work, fr, ins):
        self.pop_frame(st, fr); self.unwind(st)

    def i_unreachable(self, st, work, fr, ins):
        raise Violation('unreachable executed in ' + fr.f.name, 'ub')

    # ------------------------------------------------------------------ arithmetic
    def binop(self, st, op, a, b, bits, fl):
        mask = (1 << bits) - 1
        if type(a) is Bad: return a
        if type(b) is Bad: return b
        if type(a) is tuple or type(b) is tuple:
            if type(a) is tuple and a[0] == 'fp' or type(b) is tuple and b[0] == 'fp': raise Inconclusive('floating point arithmetic')
            if op in ('add', 'sub') and type(a) is tuple and type(b) is int:
                d = sx(b, bits); return (a[0], a[1] + (d if op == 'add' else -d))
            if op == 'add' and type(b) is tuple and type(a) is int: return (b[0], b[1] + sx(a, bits))
            if op == 'sub' and type(a) is tuple and type(b) is tuple and a[0] == b[0]: return (a[1] - b[1]) & mask
            if op == 'and' and type(a) is tuple and type(b) is int and b < 16: return a[1] & b
            if op in ('urem', 'and', 'lshr', 'xor', 'mul') and type(a) is tuple and type(b) is int:
                # hash/bucket arithmetic on an address: use a stable synthetic address
                return self.binop(st, op, self.addr_int(a), b, bits, fl)
            raise Inconclusive('pointer arithmetic %s %r %r' % (op, a, b))
        if type(a) is int and type(b) is int:
            if op == 'add': r = a + b
            elif op == 'sub': r = a - b
            elif op == 'mul': r = a * b
            elif op == 'and': r = a & b
            elif op == 'or': r = a | b
            elif op == 'xor': r = a ^ b
            elif op == 'shl':
                if b >= bits: raise Violation('shift by %d >= width %d' % (b, bits), 'ub')
                r = a << b
            elif op == 'lshr':
                if b >= bits: raise Violation('shift by %d >= width %d' % (b, bits), 'ub')
                r = a >> b
            elif op == 'ashr':
                if b >= bits: raise Violation('shift by %d >= width %d' % (b, bits), 'ub')
                r = sx(a, bits) >> b
            elif op in ('udiv', 'urem', 'sdiv', 'srem'):
                if b == 0: raise Violation('division by zero', 'ub')
                if op == 'udiv': r = a // b
                elif op == 'urem': r = a % b
                else:
                    x, y = sx(a, bits), sx(b, bits); q = abs(x) // abs(y)
                    if (x < 0) != (y < 0): q = -q
                    r = q if op == 'sdiv' else x - q * y
            else: raise NotImplementedError(op)
            if fl and 'nsw' in fl and op in ('add', 'sub', 'mul'):
                x, y = sx(a, bits), sx(b, bits); e = x + y if op == 'add' else x - y if op == 'sub' else x * y
                if not (-(1 << (bits - 1)) <= e < (1 << (bits - 1))): raise Violation('signed integer overflow (%s nsw, %d-bit: %d, %d)' % (op, bits, x, y), 'ub')
            return r & mask
        A, B = self.tobv(a, bits), self.tobv(b, bits)
        if fl and 'nsw' in fl and op in ('add', 'sub', 'mul'):
            if op == 'add': ok = z3.And(z3.BVAddNoOverflow(A, B, True), z3.BVAddNoUnderflow(A, B))
            elif op == 'sub': ok = z3.And(z3.BVSubNoOverflow(A, B), z3.BVSubNoUnderflow(A, B, True))
            else: ok = z3.And(z3.BVMulNoOverflow(A, B, True), z3.BVMulNoUnderflow(A, B))
            bad, mdl = self.sat(st, z3.Not(ok))
            if bad: raise Violation('signed integer overflow possible (%s nsw, %d-bit)' % (op, bits), 'ub', model=mdl)
        if op in ('udiv', 'urem', 'sdiv', 'srem'):
            bad, mdl = self.sat(st, B == 0)
            if bad: raise Violation('division by zero possible', 'ub', model=mdl)
        if op == 'add': return A + B
        if op == 'sub': return A - B
        if op == 'mul': return A * B
        if op == 'and': return A & B
        if op == 'or': return A | B
        if op == 'xor': return A ^ B
        if op == 'shl': return A << B
        if op == 'lshr': return z3.LShR(A, B)
        if op == 'ashr': return A >> B
        if op == 'udiv': return z3.UDiv(A, B)
        if op == 'urem': return z3.URem(A, B)
        if op == 'sdiv': return A / B
        if op == 'srem': return z3.SRem(A, B)
        raise NotImplementedError(op)

    def addr_int(self, p):
        return (0x100000 + p[0] * 0x1000 + p[1]) & 0xffffffffffffffff

    def icmp(self, p, a, b, t):
        if type(a) is Bad: return a
        if type(b) is Bad: return b
        if type(a) is tuple or type(b) is tuple:
            if type(a) is Bad: return a
            if type(b) is Bad: return b
            if type(a) is not tuple:
                if is_sym(a): raise Violation('symbolic non-pointer data compared with a pointer (type confusion)', 'memory')
                a = NULL if a == 0 else (-1, a)
            if type(b) is not tuple:
                if is_sym(b): raise Violation('symbolic non-pointer data compared with a pointer (type confusion)', 'memory')
                b = NULL if b == 0 else (-1, b)
            if p == 'eq': return 1 if a == b else 0
            if p == 'ne': return 0 if a == b else 1
            return 1 if {'ult': a < b, 'ule': a <= b, 'ugt': a > b, 'uge': a >= b, 'slt': a < b, 'sle': a <= b, 'sgt': a > b, 'sge': a >= b}[p] else 0
        bits = t.a if t.k == 'int' else 64
        if type(a) is int and type(b) is int:
            if p[0] == 's': a, b = sx(a, bits), sx(b, bits)
            if p == 'eq': return 1 if a == b else 0
            if p == 'ne': return 1 if a != b else 0
            if p[1:] == 'gt': return 1 if a > b else 0
            if p[1:] == 'ge': return 1 if a >= b else 0
            if p[1:] == 'lt': return 1 if a < b else 0
            return 1 if a <= b else 0
        A, B = self.tobv(a, bits), self.tobv(b, bits)
        if p == 'eq': return A == B
        if p == 'ne': return A != B
        if p == 'ugt': return z3.UGT(A, B)
        if p == 'uge': return z3.UGE(A, B)
        if p == 'ult': return z3.ULT(A, B)
        if p == 'ule': return z3.ULE(A, B)
        if p == 'sgt': return A > B
        if p == 'sge': return A >= B
        if p == 'slt': return A < B
        return A <= B

    # ------------------------------------------------------------------ exceptions
    def tid(self, st, ti):
        if ti not in st.tids: st.tids[ti] = len(st.tids) + 1
        return st.tids[ti]

    def unwind(self, st):
        """st.exc = (obj, typeinfo). The top frame's current instruction is the call/invoke being unwound through."""
        stack = st.threads[st.cur].stack
        while True:
            if not stack: raise Violation('exception escaped the thread: std::terminate', 'terminate')
            fr = stack[-1]; ins = fr.blk[fr.ip]
            if ins.op == 'invoke':
                lp = fr.f.blocks[ins.x['unwind']]; k = 0
                while lp[k].op == 'phi': k += 1
                cl = lp[k].x; obj, ti = st.exc; sel = None
                for c in cl['catch']:
                    cv = self.const(c)
                    if cv == NULL: sel = self.tid(st, NULL); break
                    if cv == ti: sel = self.tid(st, cv); break
                if sel is None and cl['cleanup']: sel = 0
                if sel is None and cl['catch']: sel = 0   # non-matching catch: clang code compares selector and resumes
                if sel is not None:
                    self.jump(fr, ins.x['unwind']); fr.loc[lp[k].res] = [obj, sel]; fr.ip += 1; return
            if 'nounwind' in fr.f.attrs:
                raise Violation('exception propagates out of a function that is noexcept/nounwind (%s): std::terminate' % fr.f.name[:120], 'terminate')
            self.pop_frame(st, fr)

    # ------------------------------------------------------------------ threads
    def enabled(self, st, i):
        t = st.threads[i]
        if t.status == 'done': return False
        if t.status == 'cvwait': return t.timed and st.mutexes.get(t.relock) is None
        if t.status == 'relock': return st.mutexes.get(t.relock) is None
        fr = t.stack[-1]; ins = fr.blk[fr.ip]
        if t.spin is not None:
            p, old, w_ = t.spin
            try: cur = self.load(st, p, w_, False)
            except Violation: cur = None
            if cur == old: return False
        if ins.op == 'call' or ins.op == 'invoke':
            cal = ins.x['callee']
            if cal.k == 'global':
                n = cal.a
                if n == 'vf_mutex_lock' or n == 'pthread_mutex_lock': return st.mutexes.get(self.val(fr, ins.ops[0])) is None
                if n == 'vf_join_all':
                    return all(x.status == 'done' for k, x in enumerate(st.threads) if k != i)
        return True

    def schedule(self, st, work):
        self.sched_points += 1
        n = len(st.threads)
        if n > self.max_threads: self.max_threads = n
        en = [i for i in range(n) if self.enabled(st, i)]
        if not en:
            self.deadlocks += 1
            # main thread parked in vf_join_all: report the deadlock to the harness (join returns 1)
            t0 = st.threads[0]
            if t0.status == 'ready' and t0.stack:
                fr = t0.stack[-1]; ins = fr.blk[fr.ip]
                if ins.op in ('call', 'invoke') and ins.x['callee'].k == 'global' and ins.x['callee'].a == 'vf_join_all':
                    st.cur = 0; st.abandoned = True; st.choices.append(('sched', 0)); st.tags.add('deadlock')
                    if ins.res is not None: fr.loc[ins.res] = 1
                    if ins.op == 'invoke': self.jump(fr, ins.x['normal'])
                    else: fr.ip += 1
                    st.resumed = False
                    return
            raise Violation('deadlock: no thread can run; statuses=%r' % [(t.status, 'spin' if t.spin else '') for t in st.threads], 'deadlock')
        cur = st.cur; cur_en = cur in en
        if cur_en: en = [cur] + [i for i in en if i != cur]
        for i in en[1:]:
            pre = st.preempt
            if cur_en:
                if pre >= self.max_preempt: continue
                pre += 1
            o = st.clone(); o.preempt = pre; o.cur = i; o.choices.append(('sched', i)); self.wake(o); work.append(o); self.forks += 1
        st.cur = en[0]; st.choices.append(('sched', en[0])); self.wake(st)

    def is_sched_ins(self, ins):
        op = ins.op
        if op == 'call' or op == 'invoke':
            cal = ins.x['callee']; return cal.k == 'global' and cal.a in SYNC
        if op == 'atomicrmw' or op == 'cmpxchg': return ins.sp
        if op == 'load' or op == 'store': return ins.sp or (self.shared_points and ins.x is None)
        return False

    def wake(self, st):
        t = st.threads[st.cur]; t.spin = None
        if t.status == 'cvwait':   # timed wait chosen by the scheduler: the timeout fires (only offered while the mutex is free)
            t.status = 'relock'; t.wres = 0; t.timed = False; st.choices.append(('timeout', st.cur))
        if t.status == 'relock':
            st.mutexes[t.relock] = st.cur; t.status = 'ready'
            fr = t.stack[-1]; ins = fr.blk[fr.ip]
            if ins.res is not None: fr.loc[ins.res] = t.rets[0] if t.wres else t.rets[1]
            if ins.op == 'invoke': self.jump(fr, ins.x['normal'])
            else: fr.ip += 1
            st.resumed = False; return
        fr = t.stack[-1]
        if t.fresh:
            t.fresh = False; st.resumed = self.is_sched_ins(fr.blk[fr.ip]) and not (fr.blk[fr.ip].op in ('load', 'store') and fr.blk[fr.ip].x is None)
        else: st.resumed = True    # a thread that ran before is always parked at the scheduling point it was switched away from

    # ------------------------------------------------------------------ calls
    def do_call(self, st, work, fr, ins):
        cal = ins.x['callee']
        if cal.k == 'global': name = cal.a
        else:
            fp = fr.loc[cal.a] if cal.k == 'local' else cal.a
            if type(fp) is not tuple or fp[0] not in self.fname:
                if type(fp) is Bad: raise bad_use(fp, 'indirect call')
                if is_sym(fp): raise Violation('indirect call through symbolic non-pointer data (type confusion)', 'memory')
                raise Violation('indirect call through bad pointer %r' % (fp,), 'memory')
            name = self.fname[fp[0]]
        f = self.m.funcs.get(name)
        if f is not None and f.defined:
            nf = Frame(f); loc = nf.loc
            ops = ins.ops; ps = f.params
            for i in range(len(ps)):
                v = ops[i]; loc[ps[i][1]] = fr.loc[v.a] if v.k == 'local' else v.a
            stack = st.threads[st.cur].stack; stack.append(nf)
            self.fcalls[name] += 1
            if len(stack) > 400: raise Violation('call stack deeper than 400 frames (unbounded recursion?)', 'nonterm')
            return
        if name in SYNC and len(st.threads) > 1:
            if not st.resumed:
                self.schedule_safe(st, work); return
            st.resumed = False
        args = [self.val(fr, a) for a in ins.ops]
        try:
            r = self.external(st, work, fr, ins, name, args)
        except Reschedule:
            self.schedule_safe(st, work); return
        except Unwind:
            self.unwind(st); return
        if ins.res is not None: fr.loc[ins.res] = r
        if ins.op == 'invoke': self.jump(fr, ins.x['normal'])
        else: fr.ip += 1

    def schedule_safe(self, st, work):
        self.schedule(st, work)

    def fork_result(self, st, work, ins, value, tag):
        """clone the current state with the call result `value`, advanced past the call"""
        o = st.clone(); o.choices.append(tag); of = o.threads[o.cur].stack[-1]
        if ins.res is not None: of.loc[ins.res] = value
        if ins.op == 'invoke': self.jump(of, ins.x['normal'])
        else: of.ip += 1
        work.append(o); self.forks += 1
        return o

    def external(self, st, work, fr, ins, name, args):
        h = EXTERNALS.get(name)
        if h is not None: return h(self, st, work, fr, ins, args)
        if name.startswith('llvm.'):
            if name.startswith('llvm.lifetime'):
                # the storage of a local is dead between lifetime.end and the next lifetime.start: touching it is a use after scope
                p = args[1]
                if type(p) is tuple and p[1] == 0:
                    o = st.mem.get(p[0])
                    if o is not None and o.kind == 'stack':
                        if p[0] not in st.own:
                            o = o.clone(); st.mem[p[0]] = o; st.own.add(p[0])
                        if name.startswith('llvm.lifetime.end'): o.freed = True; o.cells = {}
                        else: o.freed = False
                return None
            if name.startswith('llvm.experimental.noalias') or name.startswith('llvm.assume') or name.startswith('llvm.dbg') or name.startswith('llvm.invariant'): return None
            if name.startswith('llvm.memset'): return self.x_memset(st, args)
            if name.startswith('llvm.memcpy') or name.startswith('llvm.memmove'): return self.x_memcpy(st, args)
            if name.startswith('llvm.expect'): return args[0]
            if name.startswith('llvm.is.constant'): return 0
            if name == 'llvm.trap': raise Violation('llvm.trap reached', 'ub')
            if name.startswith('llvm.umax') or name.startswith('llvm.umin') or name.startswith('llvm.smax') or name.startswith('llvm.smin'):
                a, b = args; bits = ins.ty.a; pred = {'umax': 'ugt', 'umin': 'ult', 'smax': 'sgt', 'smin': 'slt'}[name[5:9]]
                c = self.icmp(pred, a, b, ins.ty)
                if is_sym(c): return z3.If(c, self.tobv(a, bits), self.tobv(b, bits))
                return a if c else b
            if name.startswith('llvm.ctlz') or name.startswith('llvm.cttz'):
                a = args[0]; bits = ins.ty.a
                if is_sym(a): raise Inconclusive('symbolic ctlz/cttz')
                if a == 0: return bits
                if 'ctlz' in name: return bits - a.bit_length()
                return (a & -a).bit_length() - 1
            if name.startswith('llvm.eh.typeid.for'): return self.tid(st, args[0])
            if name.startswith('llvm.fshl') or name.startswith('llvm.fshr'):
                a, b, c = args; bits = ins.ty.a
                if is_sym(a) or is_sym(b) or is_sym(c): raise Inconclusive('symbolic funnel shift')
                c %= bits; x = (a << bits) | b
                return ((x << c) >> bits) & ((1 << bits) - 1) if 'fshl' in name else (x >> c) & ((1 << bits) - 1)
        raise NotImplementedError('external function ' + name)

    def x_memset(self, st, args):
        p, v, n = args[0], args[1], args[2]
        if is_sym(n): raise Inconclusive('symbolic memset length')
        if n == 0: return None
        o = self.wobj(st, p, 'memset')
        if p[1] < 0 or p[1] + n > o.size: raise Violation('memset out of bounds', 'memory')
        self.clear_range(o, p[1], n)
        for i in range(n): o.cells[p[1] + i] = (v, 1)
        return None

    def x_memcpy(self, st, args):
        d, s_, n = args[0], args[1], args[2]
        if is_sym(n): raise Inconclusive('symbolic memcpy length')
        if n == 0: return None
        so = self.robj(st, s_, 'memcpy source')
        if s_[1] < 0 or s_[1] + n > so.size: raise Violation('memcpy source out of bounds (offset %d, %d bytes, object size %d)' % (s_[1], n, so.size), 'memory')
        # collect source cells, splitting the ones that straddle the range
        lo = s_[1]; hi = lo + n; items = []
        for k in range(lo - 15, hi):
            e = so.cells.get(k)
            if e is None: continue
            v, w = e
            if k >= lo and k + w <= hi: items.append((k - lo, v, w))
            elif k + w > lo:
                for i in range(w):
                    if lo <= k + i < hi: items.append((k + i - lo, byte_of(v, i, w), 1))
        do = self.wobj(st, d, 'memcpy destination')
        if d[1] < 0 or d[1] + n > do.size: raise Violation('memcpy destination out of bounds (offset %d, %d bytes, object size %d)' % (d[1], n, do.size), 'memory')
        self.clear_range(do, d[1], n)
        for off, v, w in items: do.cells[d[1] + off] = (v, w)
        return None


def sx(v, bits):
    v &= (1 << bits) - 1
    return v - (1 << bits) if v >> (bits - 1) else v

def byte_of(v, i, w):
    if type(v) is Bad: return v
    if type(v) is tuple:
        if v[0] == 'ptrbyte': return v
        return ('ptrbyte', v, i)
    if type(v) is int: return (v >> (8 * i)) & 255
    if z3.is_bool(v): v = z3.If(v, z3.BitVecVal(1, 8 * w), z3.BitVecVal(0, 8 * w))
    return z3.simplify(z3.Extract(8 * i + 7, 8 * i, v))

def cstr_bytes(s):
    out = []; i = 0
    while i < len(s):
        if s[i] == '\\': out.append(int(s[i + 1:i + 3], 16)); i += 3
        else: out.append(ord(s[i])); i += 1
    return out


# ---------------------------------------------------------------------- externals
EXTERNALS = {}
def ext(*names):
    def deco(fn):
        for n in names: EXTERNALS[n] = fn
        return fn
    return deco

@ext('_Znwm', '_Znam', 'malloc')
def x_new(e, st, work, fr, ins, a): return e.alloc(st, a[0], 'heap', 'alloc#%d' % st.nalloc)

@ext('_ZdlPv', '_ZdlPvm', '_ZdaPv', '_ZdaPvm', 'free')
def x_delete(e, st, work, fr, ins, a):
    p = a[0]
    if p == NULL or p == 0: return None
    if type(p) is not tuple: raise Violation('free of non-pointer', 'memory')
    o = st.mem.get(p[0])
    if o is None or o.kind != 'heap' or p[1] != 0: raise Violation('free of a pointer that is not the start of a heap object', 'memory')
    if o.freed: raise Violation('double free of heap object %s' % o.name, 'memory')
    e.free_obj(st, p[0]); st.live_heap -= 1; return None

@ext('__cxa_atexit')
def x_atexit(e, st, work, fr, ins, a): return 0

@ext('__cxa_allocate_exception')
def x_alloc_exc(e, st, work, fr, ins, a):
    p = e.alloc(st, a[0], 'heap', 'exception'); return p

@ext('__cxa_free_exception')
def x_free_exc(e, st, work, fr, ins, a):
    e.free_obj(st, a[0][0]); st.live_heap -= 1; return None

@ext('__cxa_throw')
def x_throw(e, st, work, fr, ins, a):
    st.exc = (a[0], a[1]); raise Unwind()

@ext('__cxa_begin_catch')
def x_begin_catch(e, st, work, fr, ins, a):
    st.caught.append((st.exc[0], st.exc[1], False)); return a[0]

@ext('__cxa_end_catch')
def x_end_catch(e, st, work, fr, ins, a):
    if not st.caught: raise Violation('__cxa_end_catch without active catch', 'ub')
    obj, ti, rethrown = st.caught.pop()
    if not rethrown:
        e.free_obj(st, obj[0]); st.live_heap -= 1
    return None

@ext('__cxa_rethrow')
def x_rethrow(e, st, work, fr, ins, a):
    # the exception stays alive; the end_catch run by the landing pad cleanup of this handler must not free it
    obj, ti, _ = st.caught[-1]; st.exc = (obj, ti); st.caught[-1] = (obj, ti, True)
    raise Unwind()

@ext('_ZSt9terminatev', '__clang_call_terminate')
def x_terminate(e, st, work, fr, ins, a): raise Violation('std::terminate reached', 'terminate')

@ext('abort')
def x_abort(e, st, work, fr, ins, a): raise Violation('abort() reached', 'terminate')

@ext('__assert_fail')
def x_assert_fail(e, st, work, fr, ins, a): raise Violation('assert() in library code failed', 'libassert')

@ext('_ZSt17__throw_bad_allocv', '_ZSt20__throw_length_errorPKc', '_ZSt25__throw_bad_function_callv', '_ZSt24__throw_out_of_range_fmtPKcz',
     '_ZSt19__throw_logic_errorPKc', '_ZSt20__throw_system_errori', '_ZSt28__throw_bad_array_new_lengthv', '_ZSt21__throw_bad_exceptionv',
     '_ZSt20__throw_out_of_rangePKc', '_ZSt16__throw_bad_castv')
def x_throw_std(e, st, work, fr, ins, a):
    n = ins.x['callee'].a
    raise Violation('libstdc++ %s called (library-level error: %s)' % (n, {'_ZSt25__throw_bad_function_callv': 'empty std::function invoked', '_ZSt20__throw_system_errori': 'mutex/system error'}.get(n, 'std exception')), 'stdthrow')

@ext('__cxa_pure_virtual')
def x_pure(e, st, work, fr, ins, a): raise Violation('pure virtual call', 'ub')

@ext('__cxa_guard_acquire')
def x_guard_acq(e, st, work, fr, ins, a):
    v = e.load(st, a[0], 1, False)
    return 0 if v == 1 else 1
@ext('__cxa_guard_release')
def x_guard_rel(e, st, work, fr, ins, a):
    e.store(st, a[0], 1, 1); return None

@ext('memcmp', 'bcmp')
def x_memcmp(e, st, work, fr, ins, a):
    n = a[2]
    if is_sym(n): raise Inconclusive('symbolic memcmp length')
    for i in range(n):
        x = e.load(st, (a[0][0], a[0][1] + i), 1, False); y = e.load(st, (a[1][0], a[1][1] + i), 1, False)
        if is_sym(x) or is_sym(y):
            c = e.branch(st, work, e.icmp('eq', x, y, I(8)))
            if c: continue
            lt = e.branch(st, work, e.icmp('ult', x, y, I(8)))
            return 0xffffffff if lt else 1
        if x != y: return 0xffffffff if x < y else 1
    return 0

@ext('strlen')
def x_strlen(e, st, work, fr, ins, a):
    n = 0
    while True:
        b = e.load(st, (a[0][0], a[0][1] + n), 1, False)
        if is_sym(b): raise Inconclusive('symbolic strlen')
        if b == 0: return n
        n += 1

@ext('memchr')
def x_memchr(e, st, work, fr, ins, a):
    p, c, n = a
    for i in range(n):
        b = e.load(st, (p[0], p[1] + i), 1, False)
        if is_sym(b) or is_sym(c): raise Inconclusive('symbolic memchr')
        if b == (c & 255): return (p[0], p[1] + i)
    return NULL

@ext('memcpy', 'memmove')
def x_memcpy_libc(e, st, work, fr, ins, a):
    e.x_memcpy(st, a); return a[0]

@ext('memset')
def x_memset_libc(e, st, work, fr, ins, a):
    e.x_memset(st, a); return a[0]

# --- mutexes / condition variables (instrumented policy and pthread)
@ext('vf_mutex_lock', 'pthread_mutex_lock')
def x_mutex_lock(e, st, work, fr, ins, a):
    if st.mutexes.get(a[0]) is not None:
        if st.mutexes[a[0]] == st.cur: raise Violation('deadlock: mutex locked again by the thread that owns it (non-recursive)', 'deadlock')
        if len(st.threads) == 1: raise Violation('deadlock: mutex already held', 'deadlock')
        raise Reschedule()
    st.mutexes[a[0]] = st.cur; return 0

@ext('pthread_mutex_trylock')
def x_mutex_trylock(e, st, work, fr, ins, a):
    if st.mutexes.get(a[0]) is not None: return 16      # EBUSY
    st.mutexes[a[0]] = st.cur; return 0

@ext('vf_mutex_unlock', 'pthread_mutex_unlock')
def x_mutex_unlock(e, st, work, fr, ins, a):
    if st.mutexes.get(a[0]) != st.cur: raise Violation('unlock of a mutex the thread does not own', 'ub')
    st.mutexes[a[0]] = None; return 0

@ext('vf_atomic_point', 'eventpp_verif_point', 'vf_yield')
def x_point(e, st, work, fr, ins, a): return None

@ext('vf_self')
def x_self(e, st, work, fr, ins, a): return st.cur

@ext('vf_spawn')
def x_spawn(e, st, work, fr, ins, a):
    if st.spawn_mark == 0: st.spawn_mark = st.next_obj
    t = Thread(); t.fresh = True; f = e.m.funcs[e.fname[a[0][0]]]; nf = Frame(f); nf.loc[f.params[0][1]] = a[1]; t.stack.append(nf); st.threads.append(t)
    return len(st.threads) - 1

@ext('vf_join_all')
def x_join(e, st, work, fr, ins, a):
    if any(t.status != 'done' for k, t in enumerate(st.threads) if k != st.cur):
        if len(st.threads) > 1: raise Reschedule()
    return 0

def cv_block(e, st, a, timed, rets=(1, 0)):
    t = st.threads[st.cur]; m_ = a[1]; t.rets = rets
    if st.mutexes.get(m_) != st.cur: raise Violation('condition variable wait without owning the mutex', 'ub')
    if len(st.threads) == 1 and not timed: raise Violation('deadlock: single thread waits on a condition variable', 'deadlock')
    st.mutexes[m_] = None; t.status = 'cvwait'; t.cv = a[0]; t.relock = m_; t.timed = timed; t.wres = 1
    raise Reschedule()

@ext('vf_cv_wait')
def x_cv_wait(e, st, work, fr, ins, a): cv_block(e, st, a, False)

@ext('vf_cv_wait_for')
def x_cv_wait_for(e, st, work, fr, ins, a): cv_block(e, st, a, True)

@ext('vf_cv_notify_one')
def x_cv_notify_one(e, st, work, fr, ins, a):
    ws = [i for i, t in enumerate(st.threads) if t.status == 'cvwait' and t.cv == a[0]]
    if ws:
        for w in ws[1:]:
            o = e.fork_result(st, work, ins, None, ('wake', w)); o.threads[w].status = 'relock'; o.threads[w].wres = 1; o.threads[w].timed = False
        st.threads[ws[0]].status = 'relock'; st.threads[ws[0]].wres = 1; st.threads[ws[0]].timed = False; st.choices.append(('wake', ws[0]))
    return None

@ext('vf_cv_notify_all')
def x_cv_notify_all(e, st, work, fr, ins, a):
    for t in st.threads:
        if t.status == 'cvwait' and t.cv == a[0]: t.status = 'relock'; t.wres = 1; t.timed = False
    return None

@ext('_ZNSt18condition_variableC1Ev', '_ZNSt18condition_variableC2Ev')
def x_cv_ctor(e, st, work, fr, ins, a):
    e.x_memset(st, [a[0], 0, 48]); return None

@ext('_ZNSt18condition_variableD1Ev', '_ZNSt18condition_variableD2Ev')
def x_cv_dtor(e, st, work, fr, ins, a): return None

@ext('_ZNSt18condition_variable10notify_oneEv')
def x_stdcv_notify_one(e, st, work, fr, ins, a): return x_cv_notify_one(e, st, work, fr, ins, a)

@ext('_ZNSt18condition_variable10notify_allEv')
def x_stdcv_notify_all(e, st, work, fr, ins, a): return x_cv_notify_all(e, st, work, fr, ins, a)

@ext('_ZNSt18condition_variable4waitERSt11unique_lockISt5mutexE')
def x_stdcv_wait(e, st, work, fr, ins, a):
    m_ = e.load(st, a[1], 8, True)          # unique_lock::_M_device
    cv_block(e, st, [a[0], m_], False, (None, None))

@ext('pthread_cond_clockwait', 'pthread_cond_timedwait')
def x_pthread_cond_timedwait(e, st, work, fr, ins, a):
    cv_block(e, st, [a[0], a[1]], True, (0, 110))

@ext('_ZNSt6chrono3_V212steady_clock3nowEv', '_ZNSt6chrono3_V212system_clock3nowEv')
def x_clock_now(e, st, work, fr, ins, a):
    st.nsym += 1; return 1000000000 * (1 + st.nsym)

# --- harness API
@ext('vf_choose')
def x_choose(e, st, work, fr, ins, a):
    n = a[0]
    if is_sym(n): raise Inconclusive('vf_choose with symbolic bound')
    if n == 0: raise PathEnd()
    for x in range(n - 1, 0, -1): e.fork_result(st, work, ins, x, ('ch', x))
    st.choices.append(('ch', 0)); return 0

def nondet(e, st, bits):
    v = z3.BitVec('in%d_%d' % (len(st.choices), st.nsym), bits); st.nsym += 1; st.choices.append(('sym', v, bits)); return v

@ext('vf_nondet_u32')
def x_nondet32(e, st, work, fr, ins, a): return nondet(e, st, 32)
@ext('vf_nondet_u64')
def x_nondet64(e, st, work, fr, ins, a): return nondet(e, st, 64)

@ext('vf_havoc')
def x_havoc(e, st, work, fr, ins, a):
    p, n = a
    o = e.wobj(st, p, 'vf_havoc')
    if p[1] < 0 or p[1] + n > o.size: raise Violation('vf_havoc out of bounds', 'memory')
    e.clear_range(o, p[1], n); bs = []
    for i in range(n):
        b = z3.BitVec('hv%d_%d_%d' % (len(st.choices), i, st.nsym), 8); st.nsym += 1; o.cells[p[1] + i] = (b, 1); bs.append(b)
    st.choices.append(('havoc', bs)); return None

@ext('vf_assume')
def x_assume(e, st, work, fr, ins, a):
    c = a[0]
    if is_sym(c):
        c = e.as_bool(c); ok, mdl = e.sat(st, c)
        if not ok:
            e.pruned += 1; raise Pruned()
        e.add_pc(st, c, mdl)
    elif not c:
        e.pruned += 1; raise Pruned()
    return None

@ext('vf_assert')
def x_assert(e, st, work, fr, ins, a):
    c = a[0]
    if type(c) is Bad: raise bad_use(c, 'assertion %d' % a[1])
    if is_sym(c):
        c = e.as_bool(c); bad, mdl = e.sat(st, z3.Not(c))
        if bad: raise Violation('assertion %d can fail' % a[1], 'assert', a[1], mdl)
    elif not c: raise Violation('assertion %d failed' % a[1], 'assert', a[1])
    return None

@ext('vf_require')
def x_require(e, st, work, fr, ins, a):
    c = a[0]
    if type(c) is Bad: raise bad_use(c, 'requirement %d' % a[1])
    if is_sym(c):
        c = e.as_bool(c); bad, mdl = e.sat(st, z3.Not(c))
        if bad: raise Violation('harness invariant %d can fail' % a[1], 'require', a[1], mdl)
    elif not c: raise Violation('harness invariant %d failed' % a[1], 'require', a[1])
    return None

@ext('vf_cover')
def x_cover(e, st, work, fr, ins, a): st.cover.add(a[0]); return None

@ext('vf_obs')
def x_obs(e, st, work, fr, ins, a): st.obs.append((a[0], a[1])); return None

@ext('vf_tag')
def x_tag(e, st, work, fr, ins, a): st.tags.add('t%d' % a[0]); return None

@ext('vf_fault')
def x_fault(e, st, work, fr, ins, a):
    if st.faults < e.max_faults and st.tags.__contains__('faults-on'):
        o = e.fork_result(st, work, ins, 1, ('fault', 1)); o.faults = st.faults + 1
    st.choices.append(('fault', 0)); return 0

@ext('vf_faults_enable')
def x_faults_enable(e, st, work, fr, ins, a):
    if a[0]: st.tags.add('faults-on')
    else: st.tags.discard('faults-on')
    return None

@ext('vf_end')
def x_end(e, st, work, fr, ins, a):
    if st.abandoned: return None
    leaks = [o for k, o in st.mem.items() if o.kind == 'heap' and not o.freed]
    if leaks: raise Violation('leak: %d heap object(s) still alive at the end: %s' % (len(leaks), ', '.join('%s(%dB)' % (o.name, o.size) for o in leaks[:4])), 'leak')
    return None

@ext('vf_live_heap')
def x_live_heap(e, st, work, fr, ins, a): return st.live_heap


# ---------------------------------------------------------------------- parallel driver
_G = {}

def _worker(i):
    eng = _G['eng']; st = _G['frontier'][i]
    eng.reset_stats()
    eng.explore([st], deadline=_G['deadline'])
    return {'steps': eng.steps, 'paths': eng.paths, 'queries': eng.queries, 'qtime': eng.qtime, 'forks': eng.forks,
            'violations': eng.violations[:50], 'nviol': len(eng.violations), 'cover_wit': eng.cover_wit, 'fcalls': dict(eng.fcalls), 'samples': eng.samples[:2],
            'inconclusive': eng.inconclusive[:20], 'max_steps_seen': eng.max_steps_seen, 'ended': eng.ended, 'pruned': eng.pruned,
            'sched_points': eng.sched_points, 'max_threads': eng.max_threads, 'cache_hits': eng.cache_hits, 'deadlocks': eng.deadlocks, 'xq': eng.xq[:3], 'cov': list(eng.cov)}


def run(eng, nproc=16, budget_s=None, seed_frontier=None):
    """explore everything from the entry point; returns merged statistics dict"""
    import multiprocessing as mp
    t0 = time.time()
    deadline = (t0 + budget_s) if budget_s else None
    st0 = eng.init_state.clone()
    st0.threads[0].stack.append(Frame(eng.m.funcs[eng.entry]))
    work = [st0]
    if seed_frontier is None: seed_frontier = 8 * nproc
    if nproc > 1:
        eng.explore(work, deadline=deadline, fifo_until=seed_frontier)
    else:
        eng.explore(work, deadline=deadline)
    tot = {'steps': eng.steps, 'paths': eng.paths, 'queries': eng.queries, 'qtime': eng.qtime, 'forks': eng.forks,
           'violations': list(eng.violations), 'nviol': len(eng.violations), 'cover_wit': dict(eng.cover_wit), 'fcalls': collections.Counter(eng.fcalls),
           'samples': list(eng.samples), 'inconclusive': list(eng.inconclusive), 'max_steps_seen': eng.max_steps_seen, 'ended': eng.ended,
           'pruned': eng.pruned, 'sched_points': eng.sched_points, 'max_threads': eng.max_threads, 'cache_hits': eng.cache_hits, 'deadlocks': eng.deadlocks, 'xq': list(eng.xq), 'cov': set(eng.cov)}
    if work:
        _G['eng'] = eng; _G['frontier'] = work; _G['deadline'] = deadline
        ctx = mp.get_context('fork')
        with ctx.Pool(nproc) as pool:
            for r in pool.imap_unordered(_worker, range(len(work)), chunksize=1):
                for k in ('steps', 'paths', 'queries', 'qtime', 'forks', 'nviol', 'ended', 'pruned', 'sched_points', 'cache_hits', 'deadlocks'): tot[k] += r[k]
                tot['violations'] += r['violations']
                for g, w in r['cover_wit'].items(): tot['cover_wit'].setdefault(g, w)
                tot['fcalls'].update(r['fcalls'])
                if len(tot['samples']) < 8: tot['samples'] += r['samples']
                tot['inconclusive'] += r['inconclusive']
                if len(tot['xq']) < 40: tot['xq'] += r['xq']
                tot['cov'].update(r['cov'])
                tot['max_steps_seen'] = max(tot['max_steps_seen'], r['max_steps_seen']); tot['max_threads'] = max(tot['max_threads'], r['max_threads'])
    tot['wall'] = time.time() - t0; tot['subtrees'] = len(work)
    return tot


if __name__ == '__main__':
    import argparse
    ap = argparse.ArgumentParser(); ap.add_argument('ll'); ap.add_argument('--entry', default='harness'); ap.add_argument('-j', type=int, default=16)
    ap.add_argument('--preempt', type=int, default=2); ap.add_argument('--faults', type=int, default=1); ap.add_argument('--budget', type=float, default=None)
    a = ap.parse_args()
    t0 = time.time(); m = irparse.parse_module(open(a.ll).read()); tp = time.time() - t0
    e = Engine(m, a.entry, max_faults=a.faults, max_preempt=a.preempt)
    r = run(e, a.j, a.budget)
    print('parse %.2fs; paths=%d ended=%d pruned=%d steps=%d forks=%d queries=%d (cache hits %d) qtime=%.2fs wall=%.2fs (%.0f steps/s) maxpath=%d subtrees=%d' % (
        tp, r['paths'], r['ended'], r['pruned'], r['steps'], r['forks'], r['queries'], r['cache_hits'], r['qtime'], r['wall'], r['steps'] / max(r['wall'], 1e-9), r['max_steps_seen'], r['subtrees']))
    print('cover goals hit:', sorted(r['cover_wit']))
    for x in r['inconclusive'][:10]: print('INCONCLUSIVE:', x)
    seen = collections.Counter(v['violation']['msg'] for v in r['violations'])
    print('violations: %d' % r['nviol'])
    for k, n in seen.most_common(10): print('  x%d: %s' % (n, k))
    for v in r['violations'][:3]: print('  e.g.', json.dumps(v)[:600])
