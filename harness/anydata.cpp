// anydata.cpp -- C17: AnyData<M> over stored types of sizes from 1 byte to beyond the effective capacity
// (capacity-1, capacity, capacity+1, capacity+9), trivially copyable with symbolic bytes, ledger-tracked non-trivial,
// move-only, and shared ownership; constructed from lvalue / const lvalue / rvalue; through a chain of moves and a queue round trip.
#include "common.h"

struct QPol { using Threading = VMutexOnlyThreading; };
static int g_live = 0, g_ctor = 0, g_dtor = 0, g_bad = 0, g_copies = 0, g_moves = 0;

template <size_t SZ> struct Triv { unsigned char b[SZ]; };

// tracked, copyable: sizeof == 8 + PAD
// NX = false: the move constructor is not noexcept (user-written moves commonly are not) -- moving the holder must still MOVE the object
template <size_t PAD, bool NX = true> struct __attribute__((packed)) Trk {
	uint32_t v; uint32_t magic; unsigned char pad[PAD];
	explicit Trk(uint32_t x) : v(x), magic(0xABCDu) { for(size_t i = 0; i < PAD; i++) pad[i] = (unsigned char)(x + i); ++g_live; ++g_ctor; }
	Trk(const Trk & o) : v(o.v), magic(0xABCDu) { if(o.magic != 0xABCDu) ++g_bad; for(size_t i = 0; i < PAD; i++) pad[i] = o.pad[i]; ++g_live; ++g_ctor; ++g_copies; }
	Trk(Trk && o) noexcept(NX) : v(o.v), magic(0xABCDu) { if(o.magic != 0xABCDu) ++g_bad; for(size_t i = 0; i < PAD; i++) pad[i] = o.pad[i]; o.v = 0xdeadu; ++g_live; ++g_ctor; ++g_moves; }
	~Trk() { if(magic != 0xABCDu) ++g_bad; magic = 0xDEADu; --g_live; ++g_dtor; }
};
// tracked, move-only
template <size_t PAD> struct __attribute__((packed)) Mov {
	uint32_t v; uint32_t magic; unsigned char pad[PAD];
	explicit Mov(uint32_t x) : v(x), magic(0xABCEu) { for(size_t i = 0; i < PAD; i++) pad[i] = (unsigned char)(x + i); ++g_live; ++g_ctor; }
	Mov(const Mov &) = delete;
	Mov(Mov && o) noexcept : v(o.v), magic(0xABCEu) { if(o.magic != 0xABCEu) ++g_bad; for(size_t i = 0; i < PAD; i++) pad[i] = o.pad[i]; o.v = 0xdeadu; ++g_live; ++g_ctor; ++g_moves; }
	~Mov() { if(magic != 0xABCEu) ++g_bad; magic = 0xDEADu; --g_live; ++g_dtor; }
};

enum { COV_SMALL = 0, COV_AT_CAP, COV_OVER_CAP, COV_QUEUE, COV_MOVED_TWICE, COV_CONST_SRC, COV_RVALUE_SRC, COV_SHARED, COV_NEST, COV_N };

template <size_t M> struct Cap { static constexpr size_t value = M < sizeof(eventpp::anydata_internal_::LargeData) ? sizeof(eventpp::anydata_internal_::LargeData) : M; };

template <size_t M, typename T> static void cover_size()
{
	if(sizeof(T) < Cap<M>::value) vf_cover(COV_SMALL);
	if(sizeof(T) == Cap<M>::value) vf_cover(COV_AT_CAP);
	if(sizeof(T) > Cap<M>::value) vf_cover(COV_OVER_CAP);
}

struct Other1 { unsigned char x; };
struct Other2 { uint32_t a, b, c, d, e, f, g, h, i, j; };

// all accessors agree, address stable, type identity exact
template <typename AD, typename T, typename EQ> static const void * check_holder(const AD & a, EQ && equal, const void * expectAddr)
{
	const void * p = a.getAddress();
	vf_assert(p != nullptr, 180);
	const T & r1 = a.template get<T>();
	T & r2 = a;           // conversion to reference
	T * r3 = a;           // conversion to pointer
	vf_assert((const void *)&r1 == p && (const void *)&r2 == p && (const void *)r3 == p, 181);
	if(expectAddr) vf_assert(p == expectAddr, 182);            // stable while the holder lives
	vf_assert(equal(r1), 183);
	vf_assert(a.template isType<T>(), 184);
	if constexpr (std::is_copy_constructible<T>::value) vf_assert(a.template isType<const T>() && a.template isType<const T &>(), 185);
	vf_assert(a.template isType<T &>(), 185);
	vf_assert(! a.template isType<Other1>() && ! a.template isType<Other2>() && ! a.template isType<int>(), 186);
	return p;
}

template <size_t M, size_t SZ> static void test_triv()
{
	using T = Triv<SZ>; using AD = eventpp::AnyData<M>;
	cover_size<M, T>();
	T src; vf_havoc(&src, sizeof(T));
	T keep = src;
	auto eq = [&](const T & x) { bool ok = true; for(size_t i = 0; i < SZ; i++) if(x.b[i] != keep.b[i]) ok = false; return ok; };
	unsigned how = vf_choose(3);
	if(how == 0) {
		AD a(src);
		const void * p = check_holder<AD, T>(a, eq, nullptr);
		vf_assert(! a.template isType<Triv<SZ + 1> >(), 187);
		unsigned moves = vf_choose(3);
		if(moves >= 1) { AD b(std::move(a)); const void * pb = check_holder<AD, T>(b, eq, nullptr);
			if(moves == 2) { AD c(std::move(b)); check_holder<AD, T>(c, eq, nullptr); vf_cover(COV_MOVED_TWICE); }
			else check_holder<AD, T>(b, eq, pb); }
		else check_holder<AD, T>(a, eq, p);
	}
	else if(how == 1) { const T csrc = src; AD a(csrc); check_holder<AD, T>(a, eq, nullptr); vf_cover(COV_CONST_SRC); }
	else {
		// queue round trip: the AnyData is constructed inside the queue from the enqueued object and moved between slots
		static const T * expect; static bool okq; static int calls; expect = &keep; okq = true; calls = 0;
		using Q = eventpp::EventQueue<int, void(const AD &), QPol>;
		Q queue;
		queue.appendListener(3, [](const AD & d) { const T & x = d.template get<T>(); for(size_t i = 0; i < SZ; i++) if(x.b[i] != expect->b[i]) okq = false; if(! d.template isType<T>()) okq = false; calls++; });
		queue.enqueue(3, src);
		queue.enqueue(3, T(src));
		queue.process();
		vf_assert(okq && calls == 2, 188);
		vf_cover(COV_QUEUE);
	}
}

template <size_t M, typename T, bool copyable> static void test_tracked()
{
	using AD = eventpp::AnyData<M>;
	cover_size<M, T>();
	uint32_t val = vf_nondet_u32();
	vf_assume(val != 0xdeadu);
	auto eq = [&](const T & x) { return x.v == val && x.pad[0] == (unsigned char)val; };
	{
		unsigned how = vf_choose(copyable ? 3u : 2u);
		if(how == 0) {        // from rvalue, chain of moves
			int copiesBefore = g_copies;
			AD a{T(val)};
			vf_cover(COV_RVALUE_SRC);
			check_holder<AD, T>(a, eq, nullptr);
			unsigned moves = vf_choose(3);
			if(moves >= 1) { AD b(std::move(a)); check_holder<AD, T>(b, eq, nullptr);
				if(moves == 2) { AD c(std::move(b)); check_holder<AD, T>(c, eq, nullptr); vf_cover(COV_MOVED_TWICE); } }
			vf_assert(g_copies == copiesBefore, 176);      // built from an rvalue and only moved since: the held object was never copied
		}
		else if(how == 1) {   // queue round trip
			using Q = eventpp::EventQueue<int, void(const AD &), QPol>;
			static uint32_t expect; static bool okq; static int calls; expect = val; okq = true; calls = 0;
			int copiesBefore = g_copies;
			{
				Q queue;
				queue.appendListener(3, [](const AD & d) { const T & x = d.template get<T>(); if(x.v != expect || ! d.template isType<T>()) okq = false; calls++; });
				queue.enqueue(3, T(val));
				queue.enqueue(3, T(val));
				queue.processOne();
				vf_assert(okq && calls == 1, 189);
				vf_assert(g_live >= 1, 190);          // the second event's object is still held (when consumed objects die is not part of the property)
				vf_assert(g_copies == copiesBefore, 177);      // rvalue in, moved into the queue slot, moved out for dispatch: never copied
			}
			vf_cover(COV_QUEUE);
		}
		else if constexpr (copyable) {                // copy from lvalue / const lvalue: the holder owns its own copy
			const T csrc(val);
			int before = g_copies;
			AD a(csrc);
			vf_assert(g_copies == before + 1, 191);
			check_holder<AD, T>(a, eq, nullptr);
			vf_assert(a.getAddress() != (const void *)&csrc, 192);
			vf_cover(COV_CONST_SRC);
		}
	}
	// every constructed instance destroyed exactly once, nothing leaked
	vf_assert(g_live == 0, 193);
	vf_assert(g_ctor == g_dtor, 194);
	vf_assert(g_bad == 0, 195);
}

template <size_t M> static void test_shared()
{
	using AD = eventpp::AnyData<M>; using T = std::shared_ptr<int>;
	T sp = std::make_shared<int>(7);
	{
		AD a(sp);
		vf_assert(sp.use_count() == 2, 196);
		AD b(std::move(a));
		vf_assert(sp.use_count() == 2, 197);         // moving the holder moves the held object
		const T & r = b.template get<T>();
		vf_assert(r.get() == sp.get() && b.template isType<T>(), 198);
	}
	vf_assert(sp.use_count() == 1, 199);
	vf_cover(COV_SHARED);
}

#ifndef MM
#define MM 16
#endif
#define CAP (Cap<MM>::value)

// a held type with an initializer_list constructor whose elements can be built from the type itself (std::vector<std::any>, a JSON-like tree): moving
// or copying the holder must move / copy the held object, not wrap it into a one-element list of itself
struct Nest;
struct Elem { uint32_t v; uint32_t depth; Elem(const Nest & n); };          // an element type that can be built from the container itself (as std::any from a vector)
struct Nest {
	uint32_t v; uint32_t depth;
	explicit Nest(uint32_t x) : v(x), depth(0) {}
	Nest(const Nest & o) : v(o.v), depth(o.depth) {}
	Nest(Nest && o) noexcept : v(o.v), depth(o.depth) {}
	Nest(std::initializer_list<Elem> l) : v(l.size() ? l.begin()->v : 0), depth(l.size() ? l.begin()->depth + 1 : 100) {}
};
inline Elem::Elem(const Nest & n) : v(n.v), depth(n.depth) {}
template <size_t M_> static void test_nest()
{
	using AD = eventpp::AnyData<M_>;
	uint32_t x = vf_nondet_u32();
	Nest n0(x);
	AD * a = new AD(n0);
	vf_assert(a->template get<Nest>().v == x && a->template get<Nest>().depth == 0, 176);
	AD * b = new AD(std::move(*a)); delete a;
	vf_assert(b->template get<Nest>().v == x && b->template get<Nest>().depth == 0, 177);      // moved, not nested
	AD * c = new AD(Nest(x));                                                                   // from a temporary
	AD * d = new AD(std::move(*c)); AD * e = new AD(std::move(*d)); delete c; delete d;
	vf_assert(e->template get<Nest>().v == x && e->template get<Nest>().depth == 0, 178);
	delete b; delete e;
	vf_cover(COV_NEST);       // so that a witness through this test is replayed on the g++ builds: which constructor `T{std::move(t)}` selects is compiler-dependent
}

extern "C" void harness()
{
	{ volatile size_t s1 = eventpp::maxSizeOf<Triv<3>, Triv<17>, Triv<5> >(), s2 = eventpp::maxSizeOf<Triv<9> >(), s3 = eventpp::maxSizeOf<Triv<2>, Triv<1>, Triv<40> >(), s4 = eventpp::maxSizeOf<Triv<40>, Triv<1>, Triv<2> >();
	  vf_assert(s1 == 17 && s2 == 9 && s3 == 40 && s4 == 40, 175); }
	unsigned c = vf_choose(22);
	switch(c) {
	case 0: test_triv<MM, 1>(); break;
	case 1: test_triv<MM, 2>(); break;
	case 2: test_triv<MM, 8>(); break;
	case 3: test_triv<MM, CAP - 1>(); break;
	case 4: test_triv<MM, CAP>(); break;
	case 5: test_triv<MM, CAP + 1>(); break;
	case 6: test_triv<MM, CAP + 9>(); break;
	case 7: test_tracked<MM, Trk<1>, true>(); break;
	case 8: test_tracked<MM, Trk<CAP - 9>, true>(); break;       // capacity - 1
	case 9: test_tracked<MM, Trk<CAP - 8>, true>(); break;       // capacity
	case 10: test_tracked<MM, Trk<CAP - 7>, true>(); break;      // capacity + 1
	case 11: test_tracked<MM, Trk<CAP + 1>, true>(); break;      // capacity + 9
	case 12: test_tracked<MM, Mov<1>, false>(); break;
	case 13: test_tracked<MM, Mov<CAP - 9>, false>(); break;
	case 14: test_tracked<MM, Mov<CAP - 8>, false>(); break;
	case 15: test_tracked<MM, Mov<CAP - 7>, false>(); break;
	case 16: test_tracked<MM, Mov<CAP + 1>, false>(); break;
	case 17: test_tracked<MM, Trk<1, false>, true>(); break;
	case 18: test_tracked<MM, Trk<CAP - 8, false>, true>(); break;
	case 19: test_tracked<MM, Trk<CAP + 1, false>, true>(); break;
	case 20: test_nest<MM>(); break;
	default: test_shared<MM>(); break;
	}
	vf_end();
}
