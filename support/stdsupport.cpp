// own implementations of the few libstdc++.so out-of-line functions the lowered code calls
#include <list>
#include <unordered_map>
namespace std { namespace __detail {
void _List_node_base::_M_hook(_List_node_base* const position) noexcept { this->_M_next = position; this->_M_prev = position->_M_prev; position->_M_prev->_M_next = this; position->_M_prev = this; }
void _List_node_base::_M_unhook() noexcept { _List_node_base* const n = this->_M_next; _List_node_base* const p = this->_M_prev; p->_M_next = n; n->_M_prev = p; }
void _List_node_base::_M_transfer(_List_node_base* const first, _List_node_base* const last) noexcept {
  if (this != last) { last->_M_prev->_M_next = this; first->_M_prev->_M_next = last; this->_M_prev->_M_next = first;
    _List_node_base* const tmp = this->_M_prev; this->_M_prev = last->_M_prev; last->_M_prev = first->_M_prev; first->_M_prev = tmp; } }
void _List_node_base::swap(_List_node_base& x, _List_node_base& y) noexcept {
  if (x._M_next != &x) { if (y._M_next != &y) { std::swap(x._M_next, y._M_next); std::swap(x._M_prev, y._M_prev); x._M_next->_M_prev = x._M_prev->_M_next = &x; y._M_next->_M_prev = y._M_prev->_M_next = &y; }
    else { y._M_next = x._M_next; y._M_prev = x._M_prev; y._M_next->_M_prev = y._M_prev->_M_next = &y; x._M_next = x._M_prev = &x; } }
  else if (y._M_next != &y) { x._M_next = y._M_next; x._M_prev = y._M_prev; x._M_next->_M_prev = x._M_prev->_M_next = &x; y._M_next = y._M_prev = &y; } }
// growth policy model: table sizes 1,3,7,17,37,79: semantics of the map do not depend on it
std::pair<bool, std::size_t> _Prime_rehash_policy::_M_need_rehash(std::size_t n_bkt, std::size_t n_elt, std::size_t n_ins) const {
  std::size_t need = n_elt + n_ins; if (need <= n_bkt) return {false, 0};
  static const std::size_t tbl[] = {3,7,17,37,79,163,331}; for (std::size_t t : tbl) if (t >= need) return {true, t}; return {true, need*2+1}; }
}}
