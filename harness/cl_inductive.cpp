// cl_inductive.cpp -- C01, inductive step. Extends the bounded-history verdict of cl_history.cpp to histories of ANY length whose
// lists never exceed NMAX live callbacks, relative to the representation invariant INV below:
//
//   base : the freshly constructed list satisfies INV (checked here for n = 0)
//   step : from EVERY state that satisfies INV with n <= NMAX nodes -- the shape of such a state is unique (a chain of n nodes), what
//          varies is data: every node's generation counter, the list's current counter and every callback id are SYMBOLIC, constrained
//          only by INV -- ONE arbitrary operation behaves as the reference model says and re-establishes INV.
//
// INV: head/tail/next/previous form one consistent chain holding exactly the model's callbacks in order; no removed node is reachable;
//      1 <= node.counter <= currentCounter for every node.
// A counterexample from a pre-state no real history reaches would mean INV is too weak; it is not a finding. For the same reason INV itself
// is checked with vf_require (a failure is INCONCLUSIVE, the invariant is mine, not the property's) and a second operation follows the step,
// so that a representation the step broke shows in BEHAVIOUR (vf_assert) -- that, not INV, is what C01 states.
#include "common.h"

#ifndef NMAX
#define NMAX 4
#endif
#define MAXN (NMAX + 3)

static Trace g_tr;
struct Cb {
	uint32_t id;
	explicit Cb(uint32_t i) : id(i) {}
	void operator()(uint32_t a, uint32_t b) const { g_tr.add(id, a, b); }
	bool operator==(const Cb & o) const { return id == o.id; }
};
struct Pol { using Threading = VMutexOnlyThreading; using Callback = Cb; };
using CL = eventpp::CallbackList<void(uint32_t, uint32_t), Pol>;

struct Model { uint32_t id[MAXN]; int cnt; };

enum { COV_STEP_FROM_FULL = 0, COV_WRAP_IN_STEP, COV_INSERT_MID, COV_REMOVE_MID, COV_STALE_OPERAND, COV_N };

// INV is a statement about THIS representation, written by me: where it fails, the run decides nothing about C01 (vf_require -> INCONCLUSIVE,
// never a VIOLATION). What IS the property -- what an invocation / enumeration shows after the step -- is asserted with vf_assert.
static void check_inv(CL & l, const Model & m, int aid)
{
	// chain consistency and content
	auto node = l.head; decltype(node) prev; int n = 0;
	const uint32_t cur = l.currentCounter.value;
	while(node && n <= MAXN) {
		vf_require(node->previous == prev, aid);                         // link symmetry
		vf_require(node->counter != 0, aid + 1);                          // no removed node reachable
		vf_require(node->counter <= cur, aid + 2);                        // generation numbers never ahead of the list's counter
		if(n < m.cnt) vf_require(node->callback.id == m.id[n], aid + 3);  // content and order
		prev = node; node = node->next; n++;
	}
	vf_require(n == m.cnt, aid + 5);
	vf_require(l.tail == prev, aid + 6);
	vf_require((m.cnt == 0) == (! l.head), aid + 7);
}

static void observe(CL & l, const Model & m, int aid)
{
	uint32_t a = vf_nondet_u32(), b = vf_nondet_u32();
	g_tr.clear(); l(a, b);
	vf_assert(g_tr.n == m.cnt, aid);
	for(int i = 0; i < m.cnt && i < g_tr.n; i++) { vf_assert(g_tr.e[i].id == m.id[i], aid + 1); vf_assert(g_tr.e[i].a == a && g_tr.e[i].b == b, aid + 2); }
	vf_assert(l.empty() == (m.cnt == 0), aid + 3);
	{ int c = 0; l.forEach([&](const Cb &) { ++c; }); vf_assert(c == m.cnt, aid + 4); }
}

#ifndef STEPS
#define STEPS 2
#endif
#define MAXH (NMAX + STEPS + 2)

extern "C" void harness()
{
	g_tr.clear();
	CL * l = new CL(); Model m{};
	CL::Handle hs[MAXH]; int pos[MAXH]; int nh = 0;                     // every handle handed out; pos = index in the model, -1 = not in the list
	check_inv(*l, m, 500);                                               // base case
	// ---- an arbitrary INV-state with n nodes
	int n = (int)vf_choose(NMAX + 1);
	{	// a stale handle: refers to a node that was removed earlier in the history
		CL::Handle stale = l->append(Cb(0xdeadu)); l->remove(stale);
		hs[nh] = stale; pos[nh] = -1; nh++;
		hs[nh] = CL::Handle(); pos[nh] = -1; nh++;                       // and the empty handle
	}
	for(int i = 0; i < n; i++) { uint32_t id = vf_nondet_u32(); hs[nh] = l->append(Cb(id)); pos[nh] = m.cnt; nh++; m.id[m.cnt++] = id; }
	{
		uint32_t cur = vf_nondet_u32();
		vf_assume(cur >= 1);
		l->currentCounter.value = cur;
		auto node = l->head;
		while(node) { uint32_t c = vf_nondet_u32(); vf_assume(c >= 1 && c <= cur); node->counter = c; node = node->next; }
		if(cur == 0xffffffffu) vf_cover(COV_WRAP_IN_STEP);
	}
	check_inv(*l, m, 510);
	if(n == NMAX) vf_cover(COV_STEP_FROM_FULL);
	// ---- STEPS arbitrary operations; the FIRST one is the inductive step (INV re-established after it), the following ones make a broken
	//      representation observable through behaviour
	for(int step = 0; step < STEPS; step++) {
		unsigned op = vf_choose(3 + 2 * (unsigned)nh);
		uint32_t nid = vf_nondet_u32();
		auto inserted = [&](int p, CL::Handle h) { for(int k = 0; k < nh; k++) if(pos[k] >= p) pos[k]++; for(int j = m.cnt; j > p; j--) m.id[j] = m.id[j - 1]; m.id[p] = nid; m.cnt++; hs[nh] = h; pos[nh] = p; nh++; };
		auto removed = [&](int p) { for(int k = 0; k < nh; k++) { if(pos[k] == p) pos[k] = -1; else if(pos[k] > p) pos[k]--; } for(int j = p; j < m.cnt - 1; j++) m.id[j] = m.id[j + 1]; m.cnt--; };
		if(op == 0) { auto h = l->append(Cb(nid)); inserted(m.cnt, h); }
		else if(op == 1) { auto h = l->prepend(Cb(nid)); inserted(0, h); }
		else if(op == 2) {
			bool r = eventpp::removeListener(*l, Cb(nid));
			int victim = -1; for(int i = 0; i < m.cnt && victim < 0; i++) if(m.id[i] == nid) victim = i;
			vf_assert(r == (victim >= 0), 520);
			if(victim >= 0) removed(victim);
		}
		else if(op < 3 + (unsigned)nh) {
			unsigned k = op - 3; int p = pos[k] >= 0 ? pos[k] : m.cnt;
			if(pos[k] > 0) vf_cover(COV_INSERT_MID);
			if(pos[k] < 0) vf_cover(COV_STALE_OPERAND);
			auto h = l->insert(Cb(nid), hs[k]); inserted(p, h);
		}
		else {
			unsigned k = op - 3 - (unsigned)nh;
			bool r = l->remove(hs[k]);
			vf_assert(r == (pos[k] >= 0), 521);
			if(pos[k] < 0) vf_cover(COV_STALE_OPERAND);
			if(pos[k] >= 0) { if(pos[k] > 0 && pos[k] < m.cnt - 1) vf_cover(COV_REMOVE_MID); removed(pos[k]); }
		}
		// the abstraction commutes: the list shows exactly the model's content
		observe(*l, m, 540);
		for(int k = 0; k < nh; k++) vf_assert(l->ownsHandle(hs[k]) == (pos[k] >= 0), 545);
		if(step == 0) check_inv(*l, m, 530);                             // INV re-established: the induction goes through
	}
	vf_obs(1, (uint64_t)m.cnt);
	for(int i = 0; i < MAXH; i++) hs[i] = CL::Handle();
	delete l;
	vf_end();
}
