"""Per-property run specifications (harness, compile-time configuration, bounds) for the check driver."""


class Run:
    def __init__(self, name, harness, defines=None, std='c++17', exc=False, entry='harness', preempt=2, faults=1, covers=0, optional_covers=(),
                 native=('gxx-O0-san', 'gxx-O2'), bounds='', budget_s=900, max_path_steps=400000, own_new=False, max_witnesses=12, opt=None):
        self.name = name; self.harness = harness; self.defines = dict(defines or {}); self.std = std; self.exc = exc; self.entry = entry
        self.preempt = preempt; self.faults = faults; self.covers = covers; self.optional_covers = tuple(optional_covers)
        self.native = list(native) if native else []; self.bounds = bounds; self.budget_s = budget_s; self.max_path_steps = max_path_steps
        self.own_new = own_new; self.max_witnesses = max_witnesses; self.opt = opt


class Prop:
    def __init__(self, quick, thorough=None, outside='', assumptions=None):
        self.quick = quick; self.thorough = thorough or quick; self.outside = outside; self.assumptions = assumptions or []


COMMON_ASSUMPTIONS = [
    'trusted: clang-14 lowering of C++ to IR (-O1), the IR parser and symbolic executor in /verif/engine (validated on every run by native replay of witnesses), z3',
    'trusted: support/stdsupport.cpp re-implementations of out-of-line libstdc++ list/rehash functions; engine models of operator new/delete, __cxa_*',
    'libstdc++ 12 headers are executed as lowered, not modelled; shared_ptr reference counting is executed atomically (never a scheduling point)',
    'memory model: sequential consistency; pointers are (object, offset) pairs, never symbolic',
]

PROPS = {}

PROPS['C01'] = Prop(
    quick=[Run('cl_history_k4', 'cl_history.cpp', {'KK': 4}, covers=8,
               bounds='K=4 mutator steps (append/prepend/insert-before-h/remove-h/removeListener(probe)), h over every handle handed out so far (live or stale) + empty handle; N<=4 callbacks; '
                      'ids, probes, invocation arguments, forEachIf stop index: symbolic 32-bit; full observation suite after every step')],
    thorough=[Run('cl_history_k5', 'cl_history.cpp', {'KK': 5}, covers=8, budget_s=1700,
                  bounds='K=5 mutator steps, N<=5 callbacks; otherwise as quick')],
    outside='histories longer than K mutator steps / more than K callbacks alive; operations issued from inside callbacks (C02); threads (C03)',
    assumptions=['callback type is a POD functor with operator== (Policies::Callback); Threading = instrumented non-recursive mutex + plain atomics'])

HOOK_COMMITS = []
EBMC_PROPS = []
