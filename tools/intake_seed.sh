#!/bin/bash
# tools/intake_seed.sh <name> [extra check ids...]  -- intake of a sub-agent's change from /tmp/agents/out/<name>.{diff,cpp,md}:
# (1) tools/verify_seed.sh (clean demo passes, patch applies, repo tests pass with it, demo fails with it), (2) quick check of the target property
# (and the extra ids) on a scratch worktree with the patch. Prints the verify line and one line per check. Never touches /repo.
n=$1; shift; pid=${n:0:3}; src=/tmp/agents/out
mkdir -p /tmp/w
JOBS=${JOBS:-6} /verif/tools/verify_seed.sh $n $src/$n.diff $src/$n.cpp | tee -a /tmp/w/verify_seeds_r5.log
J=${J:-8} /verif/tools/run_on_patch.sh $n $src/$n.diff $pid "$@"
