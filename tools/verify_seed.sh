#!/bin/bash
# tools/verify_seed.sh <name> <patch.diff> <demo.cpp>  -- confirms a seeded change in a scratch worktree of /repo HEAD:
#  (1) demo passes on the clean tree, (2) patch applies, (3) unit tests pass with it, (4) demo fails with it.
# prints one summary line; exit 0 if all four hold.
NAME="$1"; PATCH="$2"; DEMO="$3"
WT=/tmp/seedwt/$NAME; rm -rf $WT; mkdir -p /tmp/seedwt
git -C /repo worktree add -q --detach $WT HEAD || exit 2
cd $WT
res=""
g++ -std=c++17 -I$WT/include "$DEMO" -o $WT/demo_clean -lpthread 2>/dev/null && timeout 120 $WT/demo_clean >/dev/null 2>&1; c1=$?
if ! git apply "$PATCH" 2>/dev/null; then
  echo "SEED $NAME: patch does not apply"; cd /; git -C /repo worktree remove --force $WT; exit 3
fi
g++ -std=c++17 -I$WT/include "$DEMO" -o $WT/demo_mut -lpthread 2>/dev/null && timeout 120 $WT/demo_mut >/dev/null 2>&1; c2=$?
cmake -G Ninja -S tests -B _bt -DCMAKE_BUILD_TYPE=RelWithDebInfo >/dev/null 2>&1 && cmake --build _bt -j${JOBS:-6} --target unittest >/dev/null 2>&1 && timeout 900 ./_bt/unittest/unittest > $WT/ut.log 2>&1; c3=$?
tail -2 $WT/ut.log | tr '\n' ' ' > /tmp/seedwt/$NAME.ut
echo "SEED $NAME: demo_clean_exit=$c1 demo_mut_exit=$c2 unittest_exit=$c3 ($(cat /tmp/seedwt/$NAME.ut))"
cd /; git -C /repo worktree remove --force $WT
[ $c1 -eq 0 ] && [ $c2 -ne 0 ] && [ $c3 -eq 0 ]
