// vf_native.cpp -- native replay runtime: the same harness source, compiled by g++ / clang++, driven by a
// replay file the engine wrote (choices, model values of the symbolic inputs, fault decisions, thread schedule).
//
// usage: <harness-binary> <replay-file>
// output: lines  OBS <tag> <value> | COVER <g> | VF-ASSERT-FAIL <id> | VF-LEAK <n> | VF-DEADLOCK ... | VF-MISMATCH ...
// exit : 0 path ended normally; 3 assertion failed; 4 leak; 5 deadlock; 6 replay mismatch (engine and native disagree)
#include "vf.h"
#include <stdio.h>
#include <stdlib.h>
#include <string.h>
#include <unistd.h>
#include <ucontext.h>
#include <vector>
#include <deque>
#include <string>
#include <new>

namespace {

struct Havoc { std::vector<unsigned char> bytes; };
struct HeapFill { long alloc; long off; int val; };

// plain C arrays / malloc'ed storage only: this file replaces operator new and must not recurse
template <typename T> struct Q {
	T * v = nullptr; size_t n = 0, cap = 0, head = 0;
	void push(const T & x) { if(n == cap) { cap = cap ? cap * 2 : 64; v = (T *)realloc((void *)v, cap * sizeof(T)); } v[n++] = x; }
	bool empty() const { return head >= n; }
	T pop() { return v[head++]; }
};

Q<unsigned> q_ch;
Q<unsigned long long> q_sym;
Q<int> q_fault;
Q<int> q_sched;
Q<int> q_wake;
struct HV { unsigned char * b; size_t n; };
Q<HV> q_havoc;
HeapFill * heapfill = nullptr; size_t n_heapfill = 0;

long g_allocs = 0;      // number of operator new calls so far (index of the next allocation)
long g_live = 0;        // live allocations made through operator new
bool g_faults_on = false;
bool g_abandoned = false;

[[noreturn]] void die(int code, const char * fmt, long a = 0, long b = 0)
{
	printf(fmt, a, b); printf("\n"); fflush(stdout); _exit(code);
}

void load_replay(const char * path)
{
	FILE * f = fopen(path, "r");
	if(! f) die(6, "VF-MISMATCH cannot open replay file");
	char kind[32];
	while(fscanf(f, "%31s", kind) == 1) {
		if(! strcmp(kind, "ch")) { unsigned x; if(fscanf(f, "%u", &x) != 1) break; q_ch.push(x); }
		else if(! strcmp(kind, "sym")) { int bits; unsigned long long x; if(fscanf(f, "%d %llu", &bits, &x) != 2) break; q_sym.push(x); }
		else if(! strcmp(kind, "fault")) { int x; if(fscanf(f, "%d", &x) != 1) break; q_fault.push(x); }
		else if(! strcmp(kind, "sched")) { int x; if(fscanf(f, "%d", &x) != 1) break; q_sched.push(x); }
		else if(! strcmp(kind, "wake")) { int x; if(fscanf(f, "%d", &x) != 1) break; q_wake.push(x); }
		else if(! strcmp(kind, "havoc")) {
			size_t n; if(fscanf(f, "%zu", &n) != 1) break;
			HV h; h.n = n; h.b = (unsigned char *)malloc(n ? n : 1);
			for(size_t i = 0; i < n; i++) { int x; if(fscanf(f, "%d", &x) != 1) x = 0; h.b[i] = (unsigned char)x; }
			q_havoc.push(h);
		}
		else if(! strcmp(kind, "heapfill")) {
			HeapFill h; if(fscanf(f, "%ld %ld %d", &h.alloc, &h.off, &h.val) != 3) break;
			heapfill = (HeapFill *)realloc((void *)heapfill, (n_heapfill + 1) * sizeof(HeapFill)); heapfill[n_heapfill++] = h;
		}
		else { long x; if(fscanf(f, "%ld", &x) != 1) break; }   // br / enum / timeout: informational
	}
	fclose(f);
}

// ------------------------------------------------------------------ threads (ucontext coroutines)
enum Status { READY, CVWAIT, RELOCK, DONE };
struct Th {
	ucontext_t ctx; char * stack; Status status; const void * cv; const void * relock; bool timed; int wres;
	void (*fn)(void *); void * arg; const void * want;   // mutex this thread is blocked on (lock), or null
	bool in_join;
};
enum { MAXT = 8, STACK = 1 << 20 };
Th th[MAXT]; int nth = 1; int cur = 0;
struct MX { const void * m; int owner; };
MX mx[64]; int nmx = 0;

int & owner_of(const void * m)
{
	for(int i = 0; i < nmx; i++) if(mx[i].m == m) return mx[i].owner;
	if(nmx == 64) die(6, "VF-MISMATCH too many mutexes");
	mx[nmx].m = m; mx[nmx].owner = -1; return mx[nmx++].owner;
}

void switch_to(int t)
{
	if(t == cur) return;
	int from = cur; cur = t;
	swapcontext(&th[from].ctx, &th[t].ctx);
}

// consume one schedule entry and transfer control to the thread it names
void sched_step()
{
	if(q_sched.empty()) {
		// the engine's path ended here (deadlock violation or end of the recorded path)
		die(5, "VF-DEADLOCK schedule exhausted with thread %ld blocked or running", cur);
	}
	int t = q_sched.pop();
	if(t < 0 || t >= nth || th[t].status == DONE) die(6, "VF-MISMATCH schedule names thread %ld which cannot run", t);
	Th & x = th[t];
	if(x.status == CVWAIT) {
		if(! x.timed) die(6, "VF-MISMATCH schedule resumes thread %ld parked in an untimed wait", t);
		x.status = RELOCK; x.wres = 0; x.timed = false;    // timeout fires
	}
	if(x.status == RELOCK) {
		int & o = owner_of(x.relock);
		if(o != -1) die(6, "VF-MISMATCH thread %ld re-acquires a busy mutex", t);
		o = t; x.status = READY;
	}
	switch_to(t);
}

void thread_main(int idx)
{
	th[idx].fn(th[idx].arg);
	th[idx].status = DONE;
	sched_step();
	die(6, "VF-MISMATCH finished thread %ld resumed", idx);
}

inline bool mt() { return nth > 1; }

} // namespace

extern "C" {

unsigned vf_choose(unsigned n)
{
	if(q_ch.empty()) die(6, "VF-MISMATCH vf_choose: replay has no more choices");
	unsigned x = q_ch.pop();
	if(x >= n) die(6, "VF-MISMATCH vf_choose(%ld) replay value %ld", n, x);
	return x;
}
uint32_t vf_nondet_u32(void) { if(q_sym.empty()) die(6, "VF-MISMATCH nondet: replay exhausted"); return (uint32_t)q_sym.pop(); }
uint64_t vf_nondet_u64(void) { if(q_sym.empty()) die(6, "VF-MISMATCH nondet: replay exhausted"); return (uint64_t)q_sym.pop(); }
void vf_havoc(void * p, size_t n)
{
	if(q_havoc.empty()) die(6, "VF-MISMATCH havoc: replay exhausted");
	HV h = q_havoc.pop();
	if(h.n != n) die(6, "VF-MISMATCH havoc size %ld vs %ld", (long)h.n, (long)n);
	memcpy(p, h.b, n);
}
void vf_assume(bool c) { if(! c) die(6, "VF-MISMATCH assumption false under the replayed model"); }
void vf_assert(bool c, int id) { if(! c) die(3, "VF-ASSERT-FAIL %ld", id); }
void vf_require(bool c, int id) { if(! c) die(7, "VF-REQUIRE-FAIL %ld", id); }
void vf_cover(int g) { printf("COVER %d\n", g); }
void vf_obs(int tag, uint64_t v) { printf("OBS %d %llu\n", tag, (unsigned long long)v); }
void vf_tag(int) {}
void vf_faults_enable(int on) { g_faults_on = on != 0; }
unsigned vf_live_heap(void) { return (unsigned)g_live; }
bool vf_fault(int kind)
{
	if(getenv("VF_DEBUG")) printf("FAULTPOINT %d\n", kind);
	if(q_fault.empty()) die(6, "VF-MISMATCH fault point: replay exhausted");
	return q_fault.pop() != 0;
}
void vf_end(void)
{
	fflush(stdout);
	if(g_abandoned) { printf("VF-END abandoned\n"); fflush(stdout); _exit(0); }
#ifndef VF_NO_NEW_REPLACEMENT
	if(g_live != 0) die(4, "VF-LEAK %ld allocation(s) still alive at vf_end", g_live);
#endif
	printf("VF-END ok\n"); fflush(stdout);
}
int vf_self(void) { return cur; }

int vf_spawn(void (*fn)(void *), void * arg)
{
	if(nth == MAXT) die(6, "VF-MISMATCH too many threads");
	int i = nth++;
	Th & t = th[i];
	t.stack = (char *)malloc(STACK); t.status = READY; t.fn = fn; t.arg = arg; t.timed = false; t.in_join = false;
	getcontext(&t.ctx); t.ctx.uc_stack.ss_sp = t.stack; t.ctx.uc_stack.ss_size = STACK; t.ctx.uc_link = nullptr;
	makecontext(&t.ctx, (void (*)())thread_main, 1, i);
	return i;
}

int vf_join_all(void)
{
	if(! mt()) return 0;
	// the engine never resumes a thread parked at join unless every other thread is done, or nobody can run (deadlock)
	sched_step();
	for(int i = 0; i < nth; i++) if(i != cur && th[i].status != DONE) { g_abandoned = true; return 1; }
	return 0;
}

void vf_yield(int) { if(mt()) sched_step(); }
void vf_atomic_point(const void *) { if(mt()) sched_step(); }
void eventpp_verif_point(int) { if(mt()) sched_step(); }

void vf_mutex_lock(const void * m)
{
	if(mt()) sched_step();   // a thread waiting for a busy mutex is not resumed before the mutex is free
	int & o = owner_of(m);
	if(o == cur) die(5, "VF-DEADLOCK mutex locked again by its owner (thread %ld)", cur);
	if(o != -1) {
		if(! mt()) die(5, "VF-DEADLOCK mutex already held");
		die(6, "VF-MISMATCH thread %ld resumed at a busy mutex", cur);
	}
	o = cur;
}
void vf_mutex_unlock(const void * m)
{
	if(mt()) sched_step();
	int & o = owner_of(m);
	if(o != cur) die(6, "VF-MISMATCH unlock of a mutex not owned");
	o = -1;
}
static bool cv_block(const void * cv, const void * m, bool timed)
{
	if(mt()) sched_step();
	int & o = owner_of(m);
	if(o != cur) die(6, "VF-MISMATCH cv wait without the mutex");
	if(! mt()) { if(timed) return false; die(5, "VF-DEADLOCK single thread waits on a condition variable"); }
	o = -1;
	Th & t = th[cur]; t.status = CVWAIT; t.cv = cv; t.relock = m; t.timed = timed; t.wres = 1;
	sched_step();     // resumed by sched_step of another thread after notify (RELOCK) or timeout; mutex already re-acquired
	return t.wres != 0;
}
void vf_cv_wait(const void * cv, const void * m) { cv_block(cv, m, false); }
bool vf_cv_wait_for(const void * cv, const void * m) { return cv_block(cv, m, true); }
void vf_cv_notify_one(const void * cv)
{
	if(mt()) sched_step();
	bool any = false;
	for(int i = 0; i < nth; i++) if(th[i].status == CVWAIT && th[i].cv == cv) any = true;
	if(! any) return;
	if(q_wake.empty()) die(6, "VF-MISMATCH notify_one with waiters but replay has no wake entry");
	int w = q_wake.pop();
	if(w < 0 || w >= nth || th[w].status != CVWAIT || th[w].cv != cv) die(6, "VF-MISMATCH wake names thread %ld which is not waiting", w);
	th[w].status = RELOCK; th[w].wres = 1; th[w].timed = false;
}
void vf_cv_notify_all(const void * cv)
{
	if(mt()) sched_step();
	for(int i = 0; i < nth; i++) if(th[i].status == CVWAIT && th[i].cv == cv) { th[i].status = RELOCK; th[i].wres = 1; th[i].timed = false; }
}

void harness(void);

} // extern "C"

#ifndef VF_NO_NEW_REPLACEMENT
static void * vf_alloc(size_t n)
{
	void * p = malloc(n ? n : 1);
	if(! p) abort();
	memset(p, 0xA5, n);
	for(size_t i = 0; i < n_heapfill; i++) if(heapfill[i].alloc == g_allocs && heapfill[i].off >= 0 && (size_t)heapfill[i].off < n) ((unsigned char *)p)[heapfill[i].off] = (unsigned char)heapfill[i].val;
	++g_allocs; ++g_live;
	return p;
}
void * operator new(size_t n) { return vf_alloc(n); }
void * operator new[](size_t n) { return vf_alloc(n); }
void operator delete(void * p) noexcept { if(p) { --g_live; free(p); } }
void operator delete[](void * p) noexcept { if(p) { --g_live; free(p); } }
void operator delete(void * p, size_t) noexcept { if(p) { --g_live; free(p); } }
void operator delete[](void * p, size_t) noexcept { if(p) { --g_live; free(p); } }
#endif

int main(int argc, char ** argv)
{
	if(argc < 2) { fprintf(stderr, "usage: %s <replay-file>\n", argv[0]); return 2; }
	setvbuf(stdout, nullptr, _IOFBF, 1 << 16);
	load_replay(argv[1]);
	th[0].status = READY;
	g_allocs = 0; g_live = 0;
	harness();
	fflush(stdout);
	return 0;
}
