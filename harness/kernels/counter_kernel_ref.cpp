// Representation check for counter_kernel.cpp: the kernel builds the wrapper's private Data by hand (so that the lowered IR has no heap).
// That is only meaningful while "Data{n, ...}" means "registered with trigger count n". This program compares the kernel with the PUBLIC path
// (CounterRemover::appendListener on a real EventDispatcher) on boundary and pseudo-random counts; if they disagree the kernel does not
// represent the code on this tree and the E-bmc run reports INCONCLUSIVE instead of judging laws on it.
#include <eventpp/eventdispatcher.h>
#include <eventpp/utilities/counterremover.h>
#include <cstdint>
#include <cstdio>
#include <climits>
extern "C" uint32_t k_counter(int32_t n, uint32_t triggers);
static uint32_t ref(int32_t n, uint32_t triggers)
{
	eventpp::EventDispatcher<int, void(int)> d; int calls = 0;
	eventpp::counterRemover(d).appendListener(3, [&calls](int) { ++calls; }, n);
	for(uint32_t i = 0; i < triggers; i++) d.dispatch(3, 7);
	return (uint32_t)calls | ((uint32_t)(d.hasAnyListener(3) ? 1 : 0) << 16);
}
int main()
{
	static const int32_t edge[] = { INT_MIN, INT_MIN + 1, -7, -1, 0, 1, 2, 3, 4, 5, 6, 7, 100, INT_MAX - 1, INT_MAX };
	uint32_t x = 12345u; int bad = 0;
	for(int k = 0; k < 15 + 200; k++) {
		int32_t n = k < 15 ? edge[k] : (int32_t)(x = x * 1664525u + 1013904223u);
		if(k >= 15 && (k & 1)) n = n % 8;
		for(uint32_t t = 0; t <= 5; t++) {
			uint32_t a = k_counter(n, t) & 0x100ffu, b = ref(n, t);
			if(a != b) { if(bad < 3) printf("MISMATCH n=%d triggers=%u kernel=%x public=%x\n", n, t, a, b); bad++; }
		}
	}
	printf(bad ? "KERNEL-NOT-REPRESENTATIVE %d\n" : "KERNEL-REPRESENTATIVE\n", bad);
	return bad ? 1 : 0;
}
