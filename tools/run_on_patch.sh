#!/bin/bash
# tools/run_on_patch.sh <name> <patch.diff> <check ids...>  -- applies a patch to a scratch worktree of /repo HEAD (never to /repo) and runs the
# quick checks there (VERIF_REPO / VERIF_OUT redirected to the scratch dir). One line per check: HOLDS | VIOLATION ... | INCONCLUSIVE ...
# env: J (cores per check, default 8), TIER, SCRATCH
cd /verif || exit 2
n=$1; p=$(realpath "$2"); shift 2
d=${SCRATCH:-/tmp/seedreg}/$n; rm -rf "$d"; mkdir -p "$d"; git -C /repo worktree prune
git -C /repo worktree add -q --detach "$d/wt" HEAD || { echo "ERROR worktree"; exit 2; }
if ! git -C "$d/wt" apply "$p" 2>/dev/null; then echo "PATCH-DOES-NOT-APPLY $n"; git -C /repo worktree remove --force "$d/wt"; rm -rf "$d"; exit 3; fi
for id in "$@"; do
  out=$(VERIF_REPO=$d/wt VERIF_OUT=$d/out ./check $id -j ${J:-8} ${TIER:+--tier $TIER} 2>&1); rc=$?
  case $rc in
    0) echo "$n $id HOLDS";;
    1) echo "$n $id VIOLATION: $(echo "$out" | grep '^  run=' | cut -c1-140 | head -3 | tr '\n' '|')";;
    *) echo "$n $id INCONCLUSIVE: $(echo "$out" | grep -m2 '^PROBLEM' | cut -c1-300 | tr '\n' '|')";;
  esac
done
git -C /repo worktree remove --force "$d/wt"; rm -rf "$d"
