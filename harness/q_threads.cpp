// q_threads.cpp -- thread-mode harness for the event queue.
//   MODE 6  (C06): producers and consumers; no event lost or duplicated, per producer/consumer FIFO, no deadlock
//   MODE 11 (C11): an observer thread calls emptyQueue() / waitFor(0) while workers process
//   MODE 7  (C07): wait()/waitFor() vs enqueue and DisableQueueNotify scopes; no lost wake-up
// Every thread's script is chosen by vf_choose; the schedule is explored by the engine (preemption bound P).
#include "common.h"

#ifndef MODE
#define MODE 6
#endif
#ifndef TT
#define TT 2
#endif
#ifndef SS
#define SS 2
#endif
#define EV 1
#define MAXE 12
#define MAXLOG 32

static void on_listener(uint32_t seq, uint32_t payload);
struct Cb { uint32_t id; explicit Cb(uint32_t i) : id(i) {} void operator()(uint32_t seq, uint32_t payload) const { on_listener(seq, payload); } };
#ifdef HETER
// the heterogeneous queue has its own copies of enqueue / process / processOne / processIf / clearEvents / wait / DisableQueueNotify
struct Pol { using Threading = VThreading; };
using Q = eventpp::HeterEventQueue<int, eventpp::HeterTuple<void(uint32_t, uint32_t), void(uint32_t)>, Pol>;
#else
struct Pol { using Threading = VThreading; using Callback = Cb; };
using Q = eventpp::EventQueue<int, void(uint32_t, uint32_t), Pol>;
#endif

enum QOp { Q_ENQUEUE, Q_PROCESS, Q_PROCESS_ONE, Q_PROCESS_IF, Q_PROCESS_UNTIL, Q_TAKE, Q_PEEK, Q_CLEAR, Q_COUNT };

struct Evt { int producer; int enqCall, enqRet; int dispatched; int taken; int consumer; int consumedAt; int dispStart; int consumeCall; int declined; };
struct Peek { uint32_t seq; int tcall; int tret; int thread; };
struct OpRec { int kind; int thread; int call; int ret; };
struct Log { uint32_t seq[MAXLOG]; int n; };
struct G {
	Q * q; int clock; Evt ev[MAXE]; int nev; int ops[4][4]; int idx[4]; Log consumed[5];
	int clearCall[8], clearRet[8]; int nclear; int opCall[5]; Peek peeks[8]; int npeek; OpRec oplog[16]; int nops;
	// MODE 11
	int obsCall, obsRet, obsResult, obsKind;
	// MODE 7
	int waitCall[2], waitRet[2], waitKind[2], waitResult[2]; int dqnCtor, dqnDtorStart, dqnDtorEnd; int enqStarted; int scopeUsed;
	int sdqnCtor, sdqnDtorStart, sscopeUsed;     // the scope-only thread's DisableQueueNotify
	int guardsMaybe, guardCtors; int waiterTid[2], toFired[2], toGuards[2], toCtors[2];   // DisableQueueNotify objects that may exist / constructions begun; state at a waiter's last timeout
};
static G * g;
static uint32_t payload_of(uint32_t seq) { return seq * 2654435761u + 17u; }

static void on_listener(uint32_t seq, uint32_t payload)
{
	int me = vf_self();
	vf_assert(seq < (uint32_t)g->nev, 320);
	vf_assert(payload == payload_of(seq), 321);                 // payload intact
	Evt & e = g->ev[seq];
	e.dispStart = g->clock++;
	e.dispatched++; e.consumer = me; e.consumeCall = g->opCall[me];
	Log & l = g->consumed[me]; if(l.n < MAXLOG) l.seq[l.n] = seq; l.n++;
	vf_assert(e.dispatched + e.taken <= 1, 322);                // never dispatched or taken more than once
#if MODE == 11
	// from inside a listener that process/processOne is running the queue is seen as non-empty
	vf_assert(! g->q->emptyQueue(), 323);
#endif
	e.consumedAt = g->clock++;
}

static void do_enqueue(int me)
{
	int seq = g->nev++;
	Evt & e = g->ev[seq]; e.producer = me; e.dispatched = 0; e.taken = 0; e.consumer = -1; e.consumedAt = 0; e.dispStart = 0; e.consumeCall = 0; e.declined = 0;
	g->enqStarted++;
	e.enqCall = g->clock++;
	g->q->enqueue(EV, (uint32_t)seq, payload_of((uint32_t)seq));
	e.enqRet = g->clock++;
}
#ifndef HETER
static void do_take(int me)
{
	Q::QueuedEvent qe; int t0 = g->clock++;
	if(g->q->takeEvent(&qe)) {
		uint32_t seq = std::get<0>(qe.arguments);
		vf_assert(seq < (uint32_t)g->nev && std::get<1>(qe.arguments) == payload_of(seq) && qe.event == EV, 324);
		Evt & e = g->ev[seq]; e.taken++; e.consumer = me; e.consumedAt = t0; e.consumeCall = t0;
		vf_assert(e.dispatched + e.taken <= 1, 325);
		Log & l = g->consumed[me]; if(l.n < MAXLOG) l.seq[l.n] = seq; l.n++;
	}
}
#endif
static void do_op(int me, int op)
{
	g->opCall[me] = g->clock++;
	int rec = g->nops < 16 ? g->nops++ : 15;
	g->oplog[rec].kind = op; g->oplog[rec].thread = me; g->oplog[rec].call = g->opCall[me]; g->oplog[rec].ret = 0;
	switch(op) {
	case Q_ENQUEUE: do_enqueue(me); break;
	case Q_PROCESS: g->q->process(); break;
	case Q_PROCESS_ONE: g->q->processOne(); break;
	// a predicate that declines an event lets later events overtake it: recorded, the FIFO oracle allows exactly that
	case Q_PROCESS_IF: g->q->processIf([](uint32_t seq, uint32_t) { bool acc = (seq & 1u) == 0; if(! acc && seq < MAXE) g->ev[seq].declined = 1; return acc; }); break;
#ifndef HETER
	case Q_PROCESS_UNTIL: g->q->processUntil([](uint32_t seq, uint32_t) { return (seq & 1u) != 0; }); break;
	case Q_TAKE: do_take(me); break;
	case Q_PEEK: {
		Q::QueuedEvent qe; int t0 = g->clock++;
		if(g->q->peekEvent(&qe)) {
			int t1 = g->clock++;
			uint32_t seq = std::get<0>(qe.arguments);
			vf_assert(seq < (uint32_t)g->nev && std::get<1>(qe.arguments) == payload_of(seq) && qe.event == EV, 326);
			if(g->npeek < 8) { g->peeks[g->npeek].seq = seq; g->peeks[g->npeek].tcall = t0; g->peeks[g->npeek].tret = t1; g->peeks[g->npeek].thread = me; g->npeek++; }     // judged after the join, when every record is complete
		}
		break; }
#endif
	default: { int i = g->nclear++; g->clearCall[i] = g->clock++; g->q->clearEvents(); g->clearRet[i] = g->clock++; break; }
	}
	g->oplog[rec].ret = g->clock++;
}

enum { COV_CONCURRENT_ENQ_PROCESS = 0, COV_TAKE_HIT, COV_PUTBACK, COV_OBS_TRUE, COV_OBS_FALSE_DURING_DISPATCH, COV_WAITER_BLOCKED_AND_WOKEN, COV_SCOPE_WITH_PENDING, COV_TIMEOUT, COV_N };

static void final_checks(bool drained)
{
	// every event consumed at most once; exactly once unless a clearEvents could have discarded it
	for(int s = 0; s < g->nev; s++) {
		Evt & e = g->ev[s];
		vf_assert(e.dispatched + e.taken <= 1, 330);
		bool maybeCleared = false;
		for(int c = 0; c < g->nclear; c++) if(g->clearRet[c] > e.enqCall) maybeCleared = true;
		if(drained && ! maybeCleared) vf_assert(e.dispatched + e.taken == 1, 331);       // none disappears
		if(e.taken) vf_cover(COV_TAKE_HIT);
	}
	// a peeked event was at the front at some moment of the peek call: everything enqueued before it had left the queue by then,
	// i.e. was consumed by a call that had started before the peek returned (or a clearEvents had started) -- or was, at that moment, in the
	// hands of a processing call of another thread (process / processIf / processUntil take the pending events out of the queue while they
	// work and put back what they do not dispatch): then nothing is demanded
	for(int k = 0; k < g->npeek; k++) {
		uint32_t s = g->peeks[k].seq; int t1 = g->peeks[k].tret;
		bool overlapped = false;
		for(int o = 0; o < g->nops && o < 16; o++) {
			const OpRec & r = g->oplog[o];
			if(r.thread != g->peeks[k].thread && (r.kind == Q_PROCESS || r.kind == Q_PROCESS_ONE || r.kind == Q_PROCESS_IF || r.kind == Q_PROCESS_UNTIL) && r.call < t1 && (r.ret == 0 || r.ret > g->peeks[k].tcall)) overlapped = true;
		}
		if(overlapped) continue;
		for(int r = 0; r < g->nev; r++) if(g->ev[r].enqRet != 0 && g->ev[r].enqRet < g->ev[s].enqCall) {
			bool gone = (g->ev[r].dispatched + g->ev[r].taken >= 1) && g->ev[r].consumeCall != 0 && g->ev[r].consumeCall < t1;
			bool cleared = false; for(int c = 0; c < g->nclear; c++) if(g->clearCall[c] < t1) cleared = true;
			vf_assert(gone || cleared, 327);
		}
	}
	// FIFO per (producer, consumer) pair; an event a processIf predicate declined may be overtaken (that is what declining means)
	for(int c = 0; c < 5; c++) {
		Log & l = g->consumed[c];
		for(int i = 0; i < l.n && i < MAXLOG; i++) for(int j = i + 1; j < l.n && j < MAXLOG; j++) {
			if(g->ev[l.seq[i]].producer == g->ev[l.seq[j]].producer) vf_assert(l.seq[i] < l.seq[j] || g->ev[l.seq[j]].declined, 332);
		}
	}
}

// ------------------------------------------------------------------------------------------------ MODE 6 / 11
#if MODE == 6 || MODE == 11
static void worker(void * p)
{
	int me = *(int *)p;
	for(int k = 0; k < SS; k++) do_op(me + 1, g->ops[me][k]);
}
#if MODE == 11
static void observer(void *)
{
	g->obsCall = g->clock++;
	if(g->obsKind == 0) g->obsResult = g->q->emptyQueue() ? 1 : 0;
	else g->obsResult = g->q->waitFor(std::chrono::milliseconds(1)) ? 0 : 1;      // 1 = "empty": timed out while no DisableQueueNotify exists
	g->obsRet = g->clock++;
}
#endif
extern "C" void harness()
{
	g = new G(); g->q = new Q(); g->clock = 1;
	g->q->appendListener(EV, Cb(1));
#ifndef OPSET
#define OPSET 0
#endif
#if OPSET == 4
	static const int opset[] = { Q_ENQUEUE, Q_PROCESS, Q_PROCESS_ONE, Q_PROCESS_IF, Q_CLEAR };          // what the heterogeneous queue offers
#elif OPSET == 5
	static const int opset[] = { Q_ENQUEUE, Q_PROCESS, Q_PROCESS_ONE };
#elif OPSET == 7
	static const int opset[] = { Q_ENQUEUE, Q_PROCESS, Q_PROCESS_ONE, Q_CLEAR };               // C11's calls as far as the heterogeneous queue has them
#elif OPSET == 6
	static const int opset[] = { Q_ENQUEUE, Q_PROCESS, Q_PROCESS_ONE, Q_TAKE, Q_CLEAR };      // exactly the calls C11 quantifies over
#elif OPSET == 1
	static const int opset[] = { Q_ENQUEUE, Q_PROCESS, Q_PROCESS_ONE, Q_TAKE };
#elif OPSET == 2
	static const int opset[] = { Q_ENQUEUE, Q_PROCESS_IF, Q_PROCESS_UNTIL, Q_TAKE, Q_CLEAR };
#elif OPSET == 3
	static const int opset[] = { Q_ENQUEUE, Q_TAKE, Q_PEEK };
#else
	static const int opset[] = { Q_ENQUEUE, Q_PROCESS, Q_PROCESS_ONE, Q_PROCESS_IF, Q_PROCESS_UNTIL, Q_TAKE, Q_PEEK, Q_CLEAR };
#endif
	// events already pending when the threads start (so that consumers have something to race for)
	// optionally a recycled (free) slot exists already: one event enqueued and processed before the threads start
	if(vf_choose(2)) { do_enqueue(0); do_enqueue(0); do_enqueue(0); g->opCall[0] = g->clock++; g->q->process(); }    // three free slots: some stay free after the pending events below
	unsigned pre = vf_choose(3);
	for(unsigned i = 0; i < pre; i++) do_enqueue(0);
	for(int t = 0; t < TT; t++) for(int k = 0; k < SS; k++) g->ops[t][k] = opset[vf_choose(sizeof(opset) / sizeof(opset[0]))];
	for(int t = 0; t + 1 < TT; t++) { int c = 0; for(int k = 0; k < SS && c == 0; k++) c = g->ops[t][k] - g->ops[t + 1][k]; vf_assume(c <= 0); }
	for(int t = 0; t < TT; t++) { g->idx[t] = t; vf_spawn(worker, &g->idx[t]); }
#if MODE == 11
	g->obsKind = (int)vf_choose(2);
	vf_spawn(observer, nullptr);
#endif
	int dead = vf_join_all();
	vf_assert(dead == 0, 340);                                   // no call deadlocks
#if MODE == 11
	if(g->obsResult == 1) {
		vf_cover(COV_OBS_TRUE);
		// every event whose enqueue had completed before the observing call began has been fully consumed when it returns
		for(int s = 0; s < g->nev; s++) {
			Evt & e = g->ev[s];
			if(e.enqRet < g->obsCall) {
				bool cleared = false;
				for(int c = 0; c < g->nclear; c++) if(g->clearCall[c] < g->obsRet && g->clearRet[c] > e.enqCall) cleared = true;
				bool consumed = (e.dispatched + e.taken == 1) && e.consumedAt < g->obsRet;
				vf_assert(consumed || cleared, 341);
			}
		}
	}
	else {
		for(int s = 0; s < g->nev; s++) if(g->ev[s].dispStart != 0 && g->ev[s].dispStart < g->obsRet && g->ev[s].consumedAt > g->obsCall) vf_cover(COV_OBS_FALSE_DURING_DISPATCH);
	}
#endif
	for(int s = 0; s < g->nev; s++) for(int r = 0; r < g->nev; r++) if(g->ev[s].dispStart != 0 && g->ev[r].enqCall < g->ev[s].consumedAt && g->ev[r].enqRet > g->ev[s].dispStart) vf_cover(COV_CONCURRENT_ENQ_PROCESS);
	// the queue stays usable once the threads are done: one more event goes in and comes out (a lock that some call left held blocks this enqueue for ever)
	do_enqueue(0);
	// drain single-threaded
	while(g->q->process()) {}
	vf_assert(g->q->emptyQueue(), 342);
	final_checks(true);
	delete g->q; delete g; g = nullptr;
	vf_end();
}
#endif

// ------------------------------------------------------------------------------------------------ MODE 7
#if MODE == 7
static void on_timeout() { int t = vf_self(); for(int w = 0; w < 2; w++) if(g->waiterTid[w] == t) { g->toFired[w] = 1; g->toGuards[w] = g->guardsMaybe; g->toCtors[w] = g->guardCtors; } }
// waiter: wait() (kind 0) or waitFor() (kind 1), then process what is there
static void waiter(void * p)
{
	int me = *(int *)p;
	g->waiterTid[me] = vf_self(); g->toFired[me] = 0;
	g->waitCall[me] = g->clock++;
	if(g->waitKind[me] == 0) { g->q->wait(); g->waitResult[me] = 1; }
	else {
		g_vf_wait_ns = -1;
		g->waitResult[me] = g->q->waitFor(std::chrono::microseconds(1900)) ? 1 : 0;
		// waitFor returns false only after ITS timeout: whatever relative timeout the library handed to the condition variable is not shorter
		// than the 1.9 ms the caller asked for (not a whole number of milliseconds on purpose)
		if(! g->waitResult[me] && g_vf_wait_ns >= 0) vf_assert(g_vf_wait_ns >= 1900000ll, 356);
		// C11: waitFor timed out while no DisableQueueNotify object existed (none at the moment of the time-out -- when the waiter holds the queue mutex
		// again -- and none constructed from then until the return): every event whose enqueue had completed before the call began has been fully consumed
		if(! g->waitResult[me] && g->toFired[me] && g->toGuards[me] == 0 && g->toCtors[me] == g->guardCtors)
			for(int s = 0; s < g->nev; s++) if(g->ev[s].enqRet != 0 && g->ev[s].enqRet < g->waitCall[me]) vf_assert(g->ev[s].dispatched + g->ev[s].taken == 1 && g->ev[s].consumedAt != 0, 357);
	}
	g->waitRet[me] = g->clock++;
	if(g->waitResult[me]) {
		// wait returns, and waitFor returns true, only after observing a non-empty queue with notification enabled
		vf_assert(g->enqStarted > 0, 350);
	}
	else vf_cover(COV_TIMEOUT);
	g->q->process();                                            // woken consumers drain the queue
}
// GUARD_BEGIN / GUARD_END bracket the whole lifetime of a DisableQueueNotify object (from before its constructor to after its destructor)
#define GUARD_BEGIN do { g->guardsMaybe++; g->guardCtors++; } while(0)
#define GUARD_END do { g->guardsMaybe--; } while(0)
// enqueuer script: 5 = two plain enqueues; 0 = plain enqueue; 1 = { scope; enqueue } ; 2 = { scope { scope; enqueue } } ; 3 = { scope } then enqueue ; 4 = enqueue twice inside one scope
static void enqueuer(void * p)
{
	int script = *(int *)p;
#ifdef HETER
	do_enqueue(3); if(script == 5) do_enqueue(3);    // the heterogeneous queue has wait / waitFor but no DisableQueueNotify
#else
	if(script == 0) do_enqueue(3);
	else if(script == 5) { do_enqueue(3); do_enqueue(3); }       // two plain enqueues: the second may fall into a woken consumer's process()
	else if(script == 1 || script == 4) {
		GUARD_BEGIN;
		{ Q::DisableQueueNotify d(g->q); g->dqnCtor = g->clock++; g->scopeUsed = 1; do_enqueue(3); if(script == 4) do_enqueue(3); vf_cover(COV_SCOPE_WITH_PENDING); g->dqnDtorStart = g->clock++; }
		GUARD_END;
		g->dqnDtorEnd = g->clock++;
	}
	else if(script == 2) {
		GUARD_BEGIN;
		{ Q::DisableQueueNotify d1(g->q); g->dqnCtor = g->clock++; g->scopeUsed = 1; GUARD_BEGIN; { Q::DisableQueueNotify d2(g->q); do_enqueue(3); } GUARD_END; g->dqnDtorStart = g->clock++; }
		GUARD_END;
		g->dqnDtorEnd = g->clock++;
	}
	else { GUARD_BEGIN; { Q::DisableQueueNotify d(g->q); } GUARD_END; do_enqueue(3); }
#endif
}
#ifdef PROC_THREAD
// a thread that runs one selective processing call on the events pending at the start: it takes them out of the queue, dispatches some
// and puts the others back -- during which the queue must not look empty to a waiter
static void processor(void * p)
{
	int kind = *(int *)p;
	g->opCall[4] = g->clock++;
	if(kind == 0) g->q->processIf([](uint32_t seq, uint32_t) { bool acc = (seq & 1u) == 0; if(! acc && seq < MAXE) g->ev[seq].declined = 1; return acc; });
	else g->q->processUntil([](uint32_t seq, uint32_t) { return (seq & 1u) != 0; });
}
#endif
#ifndef HETER
static void scope_only(void *)
{
	// a thread that only opens and closes a DisableQueueNotify scope (nothing pending from it)
	GUARD_BEGIN;
	{ Q::DisableQueueNotify d(g->q);
	  g->sdqnCtor = g->clock++; g->sscopeUsed = 1;           // stamped once the object exists (its constructor has raised the counter)
	  vf_yield(1);
	  g->sdqnDtorStart = g->clock++; }
	GUARD_END;
}
#endif
extern "C" void harness()
{
	g = new G(); g->q = new Q(); g->clock = 1;
	g->q->appendListener(EV, Cb(1));
	g_vf_on_timeout = &on_timeout; g->waiterTid[0] = g->waiterTid[1] = -1;
	static int widx[2] = {0, 1}; static int script;
	int nw = 1;
#if TT >= 3
	nw = 1 + (int)vf_choose(2);
#endif
	for(int w = 0; w < nw; w++) { g->waitKind[w] = (int)vf_choose(2); g->waitCall[w] = 0; g->waitRet[w] = 0; }
#ifdef HETER
	script = vf_choose(2) ? 5 : 0;
#else
	script = (int)vf_choose(6);
#endif
#ifdef PROC_THREAD
	static int pkind; pkind = (int)vf_choose(2); script = 0;
	{ unsigned pre = 1 + vf_choose(2); for(unsigned i = 0; i < pre; i++) do_enqueue(0); }      // 1..2 events pending before any thread starts
	vf_spawn(processor, &pkind);
#endif
	for(int w = 0; w < nw; w++) vf_spawn(waiter, &widx[w]);
	vf_spawn(enqueuer, &script);
#ifdef SCOPE_THREAD
	if(vf_choose(2)) vf_spawn(scope_only, nullptr);
#endif
	int dead = vf_join_all();
	if(dead) {
		// some thread is blocked forever: a violation if events are pending and notification is enabled
		bool pending = ! g->q->queueList.empty();
		bool enabled = g->q->queueNotifyCounter.value == 0;
		vf_assert(!(pending && enabled), 351);                   // lost wake-up
		// nothing pending: a waiter legitimately waits forever only if no event was left for it
		vf_assert(pending || true, 352);
	}
	else {
		for(int w = 0; w < nw; w++) if(g->waitRet[w] > g->waitCall[w] + 1) vf_cover(COV_WAITER_BLOCKED_AND_WOKEN);
	}
	// a wait during whose entire duration a DisableQueueNotify object was alive does not return
	if(g->scopeUsed) for(int w = 0; w < nw; w++) {
		if(g->waitRet[w] != 0 && g->waitKind[w] == 0) vf_assert(!(g->dqnCtor < g->waitCall[w] && g->waitRet[w] < g->dqnDtorStart), 353);
		if(g->waitRet[w] != 0 && g->waitKind[w] == 1 && g->waitResult[w] == 1) vf_assert(!(g->dqnCtor < g->waitCall[w] && g->waitRet[w] < g->dqnDtorStart), 354);
	}
	if(g->sscopeUsed && g->sdqnDtorStart != 0) for(int w = 0; w < nw; w++) {     // the same for the scope held by the third thread (e.g. woken by a notification issued before the scope began)
		if(g->waitRet[w] != 0 && (g->waitKind[w] == 0 || g->waitResult[w] == 1)) vf_assert(!(g->sdqnCtor < g->waitCall[w] && g->waitRet[w] < g->sdqnDtorStart), 355);
	}
	if(! dead) {
		while(g->q->process()) {}
		final_checks(true);
		delete g->q; delete g; g = nullptr;
	}
	vf_end();
}
#endif
