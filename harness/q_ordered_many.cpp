// q_ordered_many.cpp -- C13, size-threshold probe: NN pending events (more than the 16-element threshold below which libstdc++'s sorts are
// plain insertion sorts), keys drawn from 3 classes in a fixed interleaved pattern (so that every class has members far apart in enqueue order),
// payloads symbolic. Consumed by process / repeated processOne / repeated takeEvent / processIf(+put-back)+process: non-decreasing key order,
// equal keys in enqueue order, each exactly once. The bounded histories of q_history.cpp (K <= 4 pending events) cannot reach such thresholds.
#include "common.h"
#ifndef NN
#define NN 20
#endif
#ifndef CMP
#define CMP 0          // 0: user comparator on the first argument   1: default comparator (by event id)
#endif
struct Rec { uint32_t key, seq, pay; };
static Rec g_out[NN + 4]; static int g_n;
struct Cb { uint32_t id; explicit Cb(uint32_t i) : id(i) {} void operator()(uint32_t key, uint32_t seq, uint32_t pay) const { if(g_n < NN + 4) { g_out[g_n].key = key; g_out[g_n].seq = seq; g_out[g_n].pay = pay; } g_n++; } };
#if CMP == 0
struct CmpArg { template <typename T> bool operator()(const T & x, const T & y) const { return std::get<0>(x.arguments) < std::get<0>(y.arguments); } };
#else
using CmpArg = eventpp::OrderedQueueListCompare;
#endif
struct Pol { using Threading = VMutexOnlyThreading; using Callback = Cb; template <typename Item> using QueueList = eventpp::OrderedQueueList<Item, CmpArg>; };
using Q = eventpp::EventQueue<int, void(uint32_t, uint32_t, uint32_t), Pol>;
enum { COV_PROCESS = 0, COV_ONE, COV_TAKE, COV_IF, COV_N };
static uint32_t key_of(int i) { return (uint32_t)((i * 5 + (i >> 2)) % 3); }
extern "C" void harness()
{
	Q * q = new Q();
	for(int k = 0; k < 3; k++) q->appendListener(k, Cb(1));
	uint32_t pay[NN]; uint32_t salt = vf_nondet_u32();
	for(int i = 0; i < NN; i++) {
		pay[i] = salt + (uint32_t)i * 77u;
		uint32_t key = key_of(i);
#if CMP == 0
		q->enqueue(0, key, (uint32_t)i, pay[i]);
#else
		q->enqueue((int)key, key, (uint32_t)i, pay[i]);
#endif
	}
	g_n = 0;
	unsigned how = vf_choose(4);
	if(how == 0) { vf_assert(q->process(), 60); vf_cover(COV_PROCESS); }
	else if(how == 1) { for(int i = 0; i < NN; i++) vf_assert(q->processOne(), 61); vf_assert(! q->processOne(), 61); vf_cover(COV_ONE); }
	else if(how == 2) {
		for(int i = 0; i < NN; i++) { Q::QueuedEvent qe; vf_assert(q->takeEvent(&qe), 62); q->dispatch(qe); }
		vf_cover(COV_TAKE);
	}
	else {
		// processIf dispatches the odd sequence numbers and puts the others back, then everything else is processed
		vf_assert(q->processIf([](uint32_t, uint32_t seq, uint32_t) { return (seq & 1u) != 0; }), 63);
		int n1 = g_n; vf_assert(n1 == NN / 2, 64);
		for(int i = 0; i + 1 < n1; i++) vf_assert(g_out[i].key < g_out[i + 1].key || (g_out[i].key == g_out[i + 1].key && g_out[i].seq < g_out[i + 1].seq), 65);
		g_n = 0; vf_assert(q->process(), 66);
		vf_assert(g_n == NN - n1, 67);
		for(int i = 0; i + 1 < g_n; i++) vf_assert(g_out[i].key < g_out[i + 1].key || (g_out[i].key == g_out[i + 1].key && g_out[i].seq < g_out[i + 1].seq), 68);
		for(int i = 0; i < g_n; i++) vf_assert((g_out[i].seq & 1u) == 0 && g_out[i].seq < NN && g_out[i].pay == pay[g_out[i].seq] && g_out[i].key == key_of((int)g_out[i].seq), 69);
		vf_cover(COV_IF);
		vf_assert(q->emptyQueue(), 70);
		delete q; vf_end(); return;
	}
	vf_assert(g_n == NN, 71);                                   // each exactly once
	for(int i = 0; i + 1 < NN; i++) vf_assert(g_out[i].key < g_out[i + 1].key || (g_out[i].key == g_out[i + 1].key && g_out[i].seq < g_out[i + 1].seq), 72);   // comparator order, stable
	for(int i = 0; i < NN; i++) vf_assert(g_out[i].seq < NN && g_out[i].pay == pay[g_out[i].seq] && g_out[i].key == key_of((int)g_out[i].seq), 73);        // arguments intact
	vf_assert(q->emptyQueue(), 74);
	vf_obs(1, (uint64_t)g_n);
	delete q;
	vf_end();
}
