#!/bin/sh
# Runs the repository's own unit-test suite (guard EVENTPP_VERIF off) against /repo's current headers.
# The pinned test build (/repo/_build_tests) compiles against the *installed* copy of the headers in /repo/_prefix,
# so the headers are re-installed first (exactly what the baseline build phase does).
set -e
cmake --install /repo/_build --prefix /repo/_prefix > /dev/null
cmake --build /repo/_build_tests -j16 2>&1 | tail -3
ctest --test-dir /repo/_build_tests -j8 --timeout 900 --output-on-failure 2>&1 | tail -15
