// E-bmc leaf kernel: the real AnyId operator==, operator< and std::hash<AnyId>, instantiated with a functional digester stub and a
// value-storing Storage, exposed as extern "C" functions over plain integers so that the lowered IR contains no heap and no library calls.
#include <eventpp/utilities/anyid.h>
#include <stdint.h>
struct Val { uint64_t dig; uint32_t v; uint32_t tag; };
template <typename T> struct Dig { uint64_t operator()(const T & x) const { return x.dig; } };
template <> struct Dig<int> { uint64_t operator()(const int & x) const { return (uint64_t)x; } };
struct Sto {
	uint32_t v; uint32_t tag;
	Sto() : v(0), tag(0) {}
	Sto(const Val & x) : v(x.v), tag(x.tag) {}
	bool operator==(const Sto & o) const { return tag == o.tag && v == o.v; }
	bool operator<(const Sto & o) const { return tag < o.tag || (tag == o.tag && v < o.v); }
};
using IdS = eventpp::AnyId<Dig, Sto>;
using IdE = eventpp::AnyId<Dig>;
extern "C" {
__attribute__((noinline)) int k_eq_s(uint64_t da, uint32_t va, uint32_t ta, uint64_t db, uint32_t vb, uint32_t tb) { return IdS(Val{da, va, ta}) == IdS(Val{db, vb, tb}); }
__attribute__((noinline)) int k_lt_s(uint64_t da, uint32_t va, uint32_t ta, uint64_t db, uint32_t vb, uint32_t tb) { return IdS(Val{da, va, ta}) < IdS(Val{db, vb, tb}); }
__attribute__((noinline)) uint64_t k_hash_s(uint64_t da, uint32_t va, uint32_t ta) { return std::hash<IdS>()(IdS(Val{da, va, ta})); }
__attribute__((noinline)) int k_eq_e(uint64_t da, uint64_t db) { return IdE(Val{da, 0, 0}) == IdE(Val{db, 0, 0}); }
__attribute__((noinline)) int k_lt_e(uint64_t da, uint64_t db) { return IdE(Val{da, 0, 0}) < IdE(Val{db, 0, 0}); }
__attribute__((noinline)) uint64_t k_hash_e(uint64_t da) { return std::hash<IdE>()(IdE(Val{da, 0, 0})); }
}
