#!/usr/bin/env python3
# tools/lower_all.py -- lowers every thorough-tier run once (compile errors of rarely run configurations show up in minutes instead of in a 30-minute tier)
import sys, tempfile, shutil
sys.path.insert(0,'/verif/engine')
import driver, props
work=tempfile.mkdtemp(prefix='verif-lower-')
bad=0; n=0
for pid in sorted(props.PROPS):
    for run in props.PROPS[pid].thorough:
        if getattr(run,'kind','sym')=='bmc': continue
        n+=1
        try: driver.lower(run, work)
        except Exception as e:
            bad+=1; print('LOWERING FAILED', pid, run.name, str(e)[-300:].replace('\n',' | '))
print('lowered', n, 'thorough runs;', bad, 'failed')
shutil.rmtree(work, ignore_errors=True)
