/* lets gcc compile the C that ir2c generates for CBMC (differential test of the translation) */
#define __CPROVER_assert(c, m) ((void)0)
#define __CPROVER_assume(c) ((void)0)
#define __CPROVER_overflow_plus(a, b) __builtin_add_overflow_p((a), (b), (__typeof__((a) + (b)))0)
#define __CPROVER_overflow_minus(a, b) __builtin_sub_overflow_p((a), (b), (__typeof__((a) - (b)))0)
#define __CPROVER_overflow_mult(a, b) __builtin_mul_overflow_p((a), (b), (__typeof__((a) * (b)))0)
