// removers.cpp -- C16: CounterRemover (trigger count = fully symbolic 32-bit int) and ConditionalRemover
// (condition outcome = symbolic bit per evaluation) on CallbackList / EventDispatcher / EventQueue / HeterEventDispatcher.
//
// Plain listeners L0 (before) and L2 (after) surround the wrapped listener W. TT top-level triggers; every W invocation
// may re-dispatch its own event (nested trigger) while the budget NB lasts; L0 may do the same. The helper object is
// destroyed before the first trigger on one branch.
#include "common.h"

#ifndef TT
#define TT 4
#endif
#ifndef NB
#define NB 1
#endif
#ifndef TK
#define TK 0      // 0 CallbackList  1 EventDispatcher  2 EventQueue  3 HeterEventDispatcher
#endif
#ifndef RK
#define RK 0      // 0 CounterRemover  1 ConditionalRemover (condition takes the arguments)  2 (condition takes no arguments)  3 (condition callable both ways)  4 (condition object with its own state)  5 (condition returns a mask 0 / 0x40 instead of a bool)
#endif
#define EV 4

struct Pol { using Threading = VMutexOnlyThreading; };
#if TK == 0
using T = eventpp::CallbackList<void(uint32_t), Pol>;
#elif TK == 1
using T = eventpp::EventDispatcher<int, void(uint32_t), Pol>;
#elif TK == 2
using T = eventpp::EventQueue<int, void(uint32_t), Pol>;
#else
// the listeners' prototype is NOT the first one listed, and nobody uses the first one unless the harness says so below
using T = eventpp::HeterEventDispatcher<int, eventpp::HeterTuple<void(uint32_t, uint32_t), void(uint32_t)>, Pol>;
#endif

struct G {
	T * t; int budget; int triggers;        // triggers started so far (top-level and nested)
	int winv; int l0; int l2; int ceval; bool sawTrue; int jtrue; uint32_t curarg[TT + NB + 2]; int depth;
	int32_t n;
};
static G * g;

enum { COV_NESTED = 0, COV_N_LE_0, COV_N_GT_TRIGGERS, COV_N_MIDDLE, COV_COND_TRUE_LATER, COV_HELPER_DESTROYED, COV_QUEUED, COV_N };

static void trigger(uint32_t a, bool queued)
{
	g->curarg[g->depth++] = a;
	g->triggers++;
#if TK == 0
	(*g->t)(a);
#elif TK == 2
	if(queued) { g->t->enqueue(EV, a); g->t->process(); vf_cover(COV_QUEUED); }
	else g->t->dispatch(EV, a);
#else
	g->t->dispatch(EV, a);
#endif
	g->depth--;
}

static void maybe_nested()
{
	if(g->budget > 0 && vf_choose(2)) { g->budget--; vf_cover(COV_NESTED); trigger(vf_nondet_u32(), false); }
}

static void body_L0(uint32_t a) { vf_assert(a == g->curarg[g->depth - 1], 140); g->l0++; maybe_nested(); }
static void body_L2(uint32_t a) { vf_assert(a == g->curarg[g->depth - 1], 141); g->l2++; }
static void body_W(uint32_t a)
{
	vf_assert(a == g->curarg[g->depth - 1], 142);
	g->winv++;
	vf_obs(1, (uint64_t)g->winv);
#if RK == 0
	{ int32_t maxn = g->n <= 1 ? 1 : g->n; vf_assert(g->winv <= maxn, 143); }       // never more than max(n,1) invocations
#else
	vf_assert(g->winv == g->ceval, 144);                                             // condition evaluated exactly once per invocation, before it
#endif
	maybe_nested();
}
static bool cond_eval(bool hasArg, uint32_t a)
{
	vf_assert(! g->sawTrue, 145);                    // never evaluated (nor invoked) again after it held once
	if(hasArg) vf_assert(a == g->curarg[g->depth - 1], 146);
	g->ceval++;
	bool v = (vf_nondet_u32() & 1u) != 0;
	if(v) { g->sawTrue = true; g->jtrue = g->ceval; if(g->ceval > 1) vf_cover(COV_COND_TRUE_LATER); }
	return v;
}

template <typename Target> static typename Target::Handle add_plain(Target * t, void (*f)(uint32_t))
{
#if TK == 0
	return t->append(f);
#else
	return t->appendListener(EV, f);
#endif
}
static int g_other = 0;
static void body_other(uint32_t) { g_other++; }

extern "C" void harness()
{
	g = new G(); g->t = new T(); g->budget = NB;
	int evVar = EV;            // the event is passed through a caller variable that is reused afterwards
	auto hL0 = add_plain(g->t, &body_L0);
	unsigned how = vf_choose(3);          // registered through append / prepend / insert-before-L0
#if TK == 3
	// heterogeneous target: insert-before also with an empty handle and with the handle of a listener of the OTHER prototype (the new listener
	// then goes to the back of its own prototype's list, and the remover must still be able to detach it)
	T::Handle hOtherProto;
	unsigned beforeKind = how == 2 ? vf_choose(3) : 0;
	if(beforeKind == 1) hL0 = T::Handle();
	else if(beforeKind == 2) { hOtherProto = g->t->appendListener(EV, [](uint32_t, uint32_t) {}); hL0 = hOtherProto; }
	const bool wAtBack = beforeKind != 0; (void)wAtBack;
#endif
#if TK != 0
	g->t->appendListener(EV + 1, &body_other);      // a listener of ANOTHER event: never disturbed, never triggered by EV
#endif
	bool destroyHelperFirst = vf_choose(2) != 0;
#if RK == 0
	g->n = (int32_t)vf_nondet_u32();
	{
		auto * rm = new eventpp::CounterRemover<T>(*g->t);
#if TK == 0
		if(how == 0) rm->append(&body_W, g->n); else if(how == 1) rm->prepend(&body_W, g->n); else rm->insert(&body_W, hL0, g->n);
#else
		if(how == 0) rm->appendListener(evVar, &body_W, g->n); else if(how == 1) rm->prependListener(evVar, &body_W, g->n); else rm->insertListener(evVar, &body_W, hL0, g->n);
		evVar = EV + 7;
#endif
		if(destroyHelperFirst) { delete rm; rm = nullptr; vf_cover(COV_HELPER_DESTROYED); }
		add_plain(g->t, &body_L2);
		if(g->n <= 0) vf_cover(COV_N_LE_0);
		if(g->n > TT + NB) vf_cover(COV_N_GT_TRIGGERS);
		if(g->n >= 2 && g->n <= TT) vf_cover(COV_N_MIDDLE);
		for(int k = 0; k < TT; k++) {
			trigger(vf_nondet_u32(), (k & 1) != 0);
			int32_t maxn = g->n <= 1 ? 1 : g->n;
			// W is invoked on exactly the first max(n,1) triggers (nested ones counted in call order)
			vf_assert(g->winv == (maxn < g->triggers ? maxn : g->triggers), 147);
			vf_assert(g->l0 == g->triggers && g->l2 == g->triggers, 148);            // the other listeners are never disturbed
		}
		if(rm) delete rm;
	}
#else
	{
		auto * rm = new eventpp::ConditionalRemover<T>(*g->t);
#if RK == 1
		auto cond = [](uint32_t a) -> bool { return cond_eval(true, a); };
#elif RK == 3
		// callable both with and without the trigger's arguments: it must be given them
		struct BothWays { bool operator()() const { vf_assert(false, 155); return false; } bool operator()(uint32_t a) const { return cond_eval(true, a); } };
		BothWays cond;
#elif RK == 5
		// a condition that returns a MASK, not a bool: "holds" = converts to true (0x40, never 1)
		auto cond = [](uint32_t a) -> uint32_t { return cond_eval(true, a) ? 0x40u : 0u; };
#elif RK == 4
		// a condition that keeps its own state (a counting functor): every evaluation must be made on the ONE stored condition object
		struct Stateful { int mine = 0; bool operator()(uint32_t a) { ++mine; vf_assert(mine == g->ceval + 1, 156); return cond_eval(true, a); } };
		Stateful cond;
#else
		auto cond = []() -> bool { return cond_eval(false, 0); };
#endif
#if TK == 0
		if(how == 0) rm->append(&body_W, cond); else if(how == 1) rm->prepend(&body_W, cond); else rm->insert(&body_W, hL0, cond);
#else
		if(how == 0) rm->appendListener(evVar, &body_W, cond); else if(how == 1) rm->prependListener(evVar, &body_W, cond); else rm->insertListener(evVar, &body_W, hL0, cond);
		evVar = EV + 7;
#endif
		if(destroyHelperFirst) { delete rm; rm = nullptr; vf_cover(COV_HELPER_DESTROYED); }
		add_plain(g->t, &body_L2);
		for(int k = 0; k < TT; k++) {
			trigger(vf_nondet_u32(), (k & 1) != 0);
			// W is invoked on every trigger up to and including the first one for which the condition held
			if(g->sawTrue) vf_assert(g->winv == g->jtrue, 149);
			else vf_assert(g->winv == g->triggers, 150);
			vf_assert(g->ceval == g->winv, 151);
			vf_assert(g->l0 == g->triggers && g->l2 == g->triggers, 152);
		}
		if(rm) delete rm;
	}
#endif
#if TK != 0
	vf_assert(g_other == 0, 153);
	g->t->dispatch(EV + 1, 1u);
	vf_assert(g_other == 1, 154);                     // the other event's listener is still attached
#endif
	hL0 = typename T::Handle();
#if TK == 3
	hOtherProto = T::Handle();
#endif
	delete g->t; delete g; g = nullptr;
	vf_end();
}
