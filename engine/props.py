"""Per-property run specifications (harness, compile-time configuration, bounds) for the check driver."""


class Run:
    def __init__(self, name, harness, defines=None, std='c++17', exc=False, entry='harness', preempt=2, faults=1, covers=0, optional_covers=(),
                 native=('gxx-O0-san', 'gxx-O2'), bounds='', budget_s=900, max_path_steps=400000, own_new=False, max_witnesses=12, opt=None, shared_points=False, mt=False, gnuc='10.0.0', linetables=False):
        self.name = name; self.harness = harness; self.defines = dict(defines or {}); self.std = std; self.exc = exc; self.entry = entry
        self.preempt = preempt; self.faults = faults; self.covers = covers; self.optional_covers = tuple(optional_covers)
        self.native = list(native) if native else []; self.bounds = bounds; self.budget_s = budget_s; self.max_path_steps = max_path_steps
        self.own_new = own_new; self.max_witnesses = max_witnesses; self.opt = opt; self.shared_points = shared_points; self.mt = mt; self.gnuc = gnuc; self.linetables = linetables


class BmcRun(Run):
    """E-bmc run: kernel TU (extern "C" noinline wrappers of heap-free real code) + CBMC law harness"""
    def __init__(self, name, kernel, laws, entry='laws', unwind=4, std='c++17', bounds='', budget_s=600):
        Run.__init__(self, name, kernel, {}, std=std, entry=entry, bounds=bounds, budget_s=budget_s, native=())
        self.kind = 'bmc'; self.laws = laws; self.unwind = unwind


class Prop:
    def __init__(self, quick, thorough=None, outside='', assumptions=None):
        self.quick = quick; self.thorough = thorough or quick; self.outside = outside; self.assumptions = assumptions or []


COMMON_ASSUMPTIONS = [
    'trusted: clang-14 lowering of C++ to IR (-O1), the IR parser and symbolic executor in /verif/engine (validated on every run by native replay of witnesses), z3',
    'trusted: support/stdsupport.cpp re-implementations of out-of-line libstdc++ list/rehash functions; engine models of operator new/delete, __cxa_*',
    'libstdc++ 12 headers are executed as lowered, not modelled; shared_ptr reference counting is executed atomically (never a scheduling point)',
    'memory model: sequential consistency; pointers are (object, offset) pairs, never symbolic',
]

PROPS = {}

PROPS['C01'] = Prop(
    quick=[Run('cl_history_k4', 'cl_history.cpp', {'KK': 4}, covers=8,
               bounds='K=4 mutator steps (append/prepend/insert-before-h/remove-h/removeListener(probe)), h over every handle handed out so far (live or stale) + empty handle; N<=4 callbacks; '
                      'ids, probes, invocation arguments, forEachIf stop index: symbolic 32-bit; full observation suite after every step'),
           Run('cl_inductive_n4', 'cl_inductive.cpp', {'NMAX': 4}, covers=5,
               bounds='INDUCTIVE STEP: from every state satisfying the representation invariant INV with n <= 4 nodes (unique shape; every node counter, the list counter and every id fully symbolic within INV; one stale and one empty handle) '
                      'ONE arbitrary operation (append/prepend/insert-before/remove/removeListener) behaves per model and re-establishes INV, and a SECOND arbitrary operation (any handle incl. the one just handed out) again behaves per model (so that a representation the step broke shows in behaviour); INV itself is a harness-side requirement (its failure = INCONCLUSIVE, not a violation); with the base case this extends the bounded-history verdict to histories of any length over lists of <= 4 callbacks, relative to INV')],
    thorough=[Run('cl_inductive_n5', 'cl_inductive.cpp', {'NMAX': 5}, covers=5, bounds='inductive step from every INV-state with <= 5 nodes (see quick)'),
              Run('cl_history_k5', 'cl_history.cpp', {'KK': 5}, covers=8, budget_s=1700,
                  bounds='K=5 mutator steps, N<=5 callbacks; otherwise as quick')],
    outside='lists of more than 4 (thorough: 5) live callbacks; for histories beyond K steps the verdict is relative to the invariant INV stated in harness/cl_inductive.cpp; operations issued from inside callbacks (C02); threads (C03)',
    assumptions=['callback type is a POD functor with operator== (Policies::Callback); Threading = instrumented non-recursive mutex + plain atomics'])

PROPS['C02'] = Prop(
    quick=[Run('cl_nested_a3', 'cl_nested.cpp', {'N0': 3, 'AA': 3, 'DD': 2}, covers=6,
               bounds='CallbackList, 3 initial callbacks, one outermost invocation; callbacks draw A=3 actions in total from append/prepend/insert-before-h/remove-h/re-invoke, '
                      'h over all handles incl. own, removed and empty; nesting depth <= 2; invocation arguments symbolic'),
           Run('disp_nested_a2', 'cl_nested.cpp', {'N0': 2, 'AA': 2, 'DD': 2, 'DISP': None}, covers=6, optional_covers=(5,),
               bounds='EventDispatcher<int,...> (dispatch and directDispatch), 2 initial listeners, A=2 actions incl. appendListener/dispatch on a second event; depth <= 2')] + [
           Run('cl_nested_%s_a2' % tag, 'cl_nested.cpp', dict({'N0': 3, 'AA': 2, 'DD': 2, 'THREADING': thr}, **extra), covers=6, optional_covers=(5,), native=('gxx-O0-san', 'gxx-O2') if tag in ('single', 'anycounter') else (),
               bounds='"under every threading policy": the nested programs (3 callbacks, A=2, depth <= 2%s) under %s' % (', EventDispatcher' if extra else '', what))
           for (tag, thr, extra, what) in [('anycounter', 'VMutexOnlyThreading', {'ANYC': None}, 'the instrumented policy, on a list that has already seen a SYMBOLIC number c0 of additions, 1 <= c0 <= 2^32 - 65 (the generation counter wraps only after 2^32 additions: no addition history short of that may relax the rules)'),
                                           ('stdmutex', 'eventpp::MultipleThreading', {}, 'MultipleThreading: the real std::mutex / std::atomic through the engine model of pthread_mutex_* (a lock held across a callback = relock by its owner = deadlock)'),
                                           ('spinlock', 'eventpp::GeneralThreading<eventpp::SpinLock>', {}, 'GeneralThreading<SpinLock>: the real SpinLock on its IR atomics (a lock held across a callback spins forever)'),
                                           ('single', 'eventpp::SingleThreading', {}, 'SingleThreading (no locks, plain counters)'),
                                           ('disp_stdmutex', 'eventpp::MultipleThreading', {'DISP': None, 'N0': 2}, 'MultipleThreading (std::mutex via the pthread model)')]],
    thorough=[Run('cl_nested_a4', 'cl_nested.cpp', {'N0': 3, 'AA': 4, 'DD': 3}, covers=6, budget_s=1700, bounds='CallbackList, 3 initial callbacks, A=4 actions, depth <= 3'),
              Run('disp_nested_a3', 'cl_nested.cpp', {'N0': 3, 'AA': 3, 'DD': 2, 'DISP': None}, covers=6, budget_s=1700, bounds='EventDispatcher, 3 initial listeners, A=3 actions, depth <= 2')],
    outside='more than A actions per outermost invocation; nesting deeper than D; counter wrap during the invocation (C19); threads (C03)',
    assumptions=['instrumented mutex is non-recursive: a library lock held across a callback shows up as a deadlock violation'])

_Q_BOUNDS = ('EventQueue<int, ...> with 2 event keys; K=%d top-level steps from enqueue(key)/process/processOne/processIf/processUntil/peekEvent/takeEvent/clearEvents/appendListener(key)/removeListener(h); '
             'payload value symbolic 32-bit, predicate verdict = function of the symbolic payload; RA=%d re-entrant operation(s) (enqueue/processOne/takeEvent/clearEvents/process) issued from a listener or predicate; payload kind: %s')
PROPS['C05'] = Prop(
    quick=[Run('q_history_k3_int', 'q_history.cpp', {'KK': 3, 'RA': 1, 'PAYLOAD': 0}, covers=11, optional_covers=(11, 12), bounds=_Q_BOUNDS % (3, 1, 'two uint32_t by value')),
           Run('q_history_step_from_any', 'q_history.cpp', {'KK': 1, 'RA': 1, 'PAYLOAD': 0, 'INIT_MAX': 3}, covers=11, optional_covers=(11, 12, 10, 9),
               bounds='STEP FROM ANY STATE: one operation (+1 re-entrant operation) from every quiescent queue state with <= 3 pending events and <= 2 recycled slots (shape determined by these two numbers; keys chosen, payloads symbolic), then a full drain'),
           Run('q_history_dtor_enqueue', 'q_history.cpp', {'KK': 2, 'RA': 0, 'PAYLOAD': 1, 'INIT_MAX': 2, 'DTORENQ': None}, covers=14, optional_covers=(0, 1, 2, 3, 4, 5, 6, 7, 8, 9, 10, 11, 12),
               bounds='argument type whose DESTRUCTOR enqueues into the same queue (armed for the next enqueued or the oldest pending event): K=2 steps from every quiescent state with <= 2 pending events and <= 2 recycled slots; the library destroys arguments without holding its locks, so the enqueue is an ordinary one (a lock held across the destructor = self-deadlock on the non-recursive instrumented mutex)'),
           Run('q_history_k2_byvalue', 'q_history.cpp', {'KK': 2, 'RA': 1, 'PAYLOAD': 1}, covers=11, optional_covers=(11, 12, 0, 2, 9), bounds=_Q_BOUNDS % (2, 1, 'copyable tracked object BY VALUE in the prototype (a moved-from payload is recognisable)')),
           Run('q_history_k3_moveonly', 'q_history.cpp', {'KK': 3, 'RA': 0, 'PAYLOAD': 3}, covers=11, optional_covers=(11, 12, 4, 5, 7), bounds=_Q_BOUNDS % (3, 0, 'move-only tracked object by const reference'))],
    thorough=[Run('q_history_step_from_any_k2', 'q_history.cpp', {'KK': 2, 'RA': 1, 'PAYLOAD': 0, 'INIT_MAX': 3}, covers=11, optional_covers=(11, 12, 10, 9), budget_s=1700, bounds='two steps from every quiescent state with <= 3 pending events and <= 2 free slots, RA=1'),
              Run('q_history_k4_int', 'q_history.cpp', {'KK': 4, 'RA': 1, 'PAYLOAD': 0}, covers=11, optional_covers=(11, 12), budget_s=1700, bounds=_Q_BOUNDS % (4, 1, 'two uint32_t by value')),
              Run('q_history_k4_byvalue', 'q_history.cpp', {'KK': 4, 'RA': 0, 'PAYLOAD': 1}, covers=11, optional_covers=(11, 12, 4, 5), budget_s=1700, bounds=_Q_BOUNDS % (4, 0, 'copyable tracked object by value')),
              Run('q_history_k4_moveonly', 'q_history.cpp', {'KK': 4, 'RA': 1, 'PAYLOAD': 3}, covers=11, optional_covers=(11, 12, 7,), budget_s=1700, bounds=_Q_BOUNDS % (4, 1, 'move-only tracked object by const reference'))],
    outside='histories longer than K steps; more than RA re-entrant operations per history; listener changes issued from inside listeners (those follow C02); threads (C06)',
    assumptions=['every listener/predicate call is checked against the reference model at the moment it happens (incremental oracle)'])

def _cmw(name, k, **kw):
    return Run(name, 'copymove.cpp', {'KK': k, 'OBJ': 0, 'WRAPC': None}, covers=11, optional_covers=(6, 7, 8, 9, 10), bounds='copies, moves, swaps and assignments (C10 alphabet, K=%d) of CallbackLists whose source object has its generation counter at a symbolic position within 8 of the wrap: additions, copies of it and assignments TO it straddle the wrap' % k, **kw)
def _ftw(name, f=1, **kw):
    return Run(name, 'faults.cpp', {'CLASS': 0, 'WRAPC': None}, exc=True, own_new=True, faults=f, covers=6, optional_covers=(3, 5), native=('clang-O1-san', 'clang-O1'), bounds='C09 fault alphabet on a CallbackList (F=%d) with the generation counter 0..2 additions before the wrap: a failed addition at the wrap must leave the list as it was' % f, **kw)
PROPS['C19'] = Prop(
    quick=[Run('cl_history_wrap_k3', 'cl_history.cpp', {'KK': 3, 'WRAP': 3}, covers=9, optional_covers=(3, 4),
               bounds='as C01 K=3, with the generation counter started at a symbolic c0 in [2^32-1-3, 2^32-1]: the solver places the wrap at any of the additions'),
           Run('cl_nested_wrap_a2', 'cl_nested.cpp', {'N0': 2, 'AA': 2, 'DD': 2, 'WRAP': 3}, covers=8, optional_covers=(5,),
               bounds='as C02 with 2 initial callbacks, A=2 nested actions, counter started at symbolic c0 within 3 of the wrap; invocations in progress at the wrap are relaxed as the property allows, every later invocation must be exact'),
           _cmw('copymove_cl_wrap_k3', 3), _ftw('faults_cl_wrap')],
    thorough=[_cmw('copymove_cl_wrap_k4', 4, budget_s=1700), _ftw('faults_cl_wrap_f2', 2, budget_s=1700),
              Run('cl_history_wrap_k4', 'cl_history.cpp', {'KK': 4, 'WRAP': 4}, covers=9, budget_s=1700, bounds='as C01 K=4, c0 within 4 of the wrap'),
              Run('cl_nested_wrap_a3', 'cl_nested.cpp', {'N0': 3, 'AA': 3, 'DD': 2, 'WRAP': 4}, covers=8, budget_s=1700, bounds='as C02 with 3 initial callbacks, A=3, c0 within 4 of the wrap')],
    outside='wrap placed further than W additions from the start of the history; copies/moves/swaps across the wrap are exercised in C10 (counters far apart)',
    assumptions=['the counter is positioned by writing the private member currentCounter through the test-style private->public include (no repo hook)'])

_SR_BOUNDS = ('ScopedRemover<%s>: 2 targets, <=3 removers, one of 3 initial configurations, then K=%d steps from add-through-remover (append/prepend/insert) / add directly / '
              'remove slot through remover / reset / re-target / move-construct / move-assign / swap / destroy / remove directly; all removers destroyed at the end in a chosen order')
PROPS['C15'] = Prop(
    quick=[Run('scoped_cl_k2', 'scoped.cpp', {'KK': 2, 'TK': 0}, covers=8, optional_covers=(7,), bounds=_SR_BOUNDS % ('CallbackList', 2)),
           Run('scoped_disp_k2', 'scoped.cpp', {'KK': 2, 'TK': 1}, covers=8, optional_covers=(0, 1, 2, 3, 4, 5, 6, 7), bounds=_SR_BOUNDS % ('EventDispatcher', 2)),
           Run('scoped_disp_equiv_k2', 'scoped.cpp', {'KK': 2, 'TK': 1, 'EQUIV': None}, covers=8, optional_covers=(0, 1, 2, 3, 4, 5, 6, 7), bounds=_SR_BOUNDS % ('EventDispatcher with a Map policy whose key equivalence is coarser than operator== of the event type; listeners added under one event value, removed through the remover under an equivalent, unequal one', 2)),
           Run('scoped_queue_k2', 'scoped.cpp', {'KK': 2, 'TK': 2}, covers=8, optional_covers=(0, 1, 2, 3, 4, 5, 6, 7), bounds=_SR_BOUNDS % ('EventQueue', 2))],
    thorough=[Run('scoped_cl_k3', 'scoped.cpp', {'KK': 3, 'TK': 0}, covers=8, budget_s=1700, bounds=_SR_BOUNDS % ('CallbackList', 3)),
              Run('scoped_disp_k3', 'scoped.cpp', {'KK': 3, 'TK': 1}, covers=8, budget_s=1700, bounds=_SR_BOUNDS % ('EventDispatcher', 3)),
              Run('scoped_queue_k3', 'scoped.cpp', {'KK': 3, 'TK': 2}, covers=8, budget_s=1700, bounds=_SR_BOUNDS % ('EventQueue', 3))],
    outside='more than K steps after the initial configuration; more than 3 removers / 2 targets; exceptions inside remover operations (C09); threads')

_OQ = 'EventQueue with OrderedQueueList policy, comparator %s; the ordering key is a fully symbolic 32-bit value per event (the solver enumerates every feasible ordering incl. ties); K=%d steps as C05, RA=%d re-entrant operation(s)'
_OM = 'size-threshold probe: %d pending events (beyond the 16-element insertion-sort threshold of libstdc++ sorts), keys of 3 classes in a fixed interleaved pattern (NOT symbolic: a symbolic comparison would fork at every comparison of the sort), payloads symbolic, %s; consumed by process / processOne x N / takeEvent+dispatch x N / processIf+put-back+process'
_OMR = [Run('q_ordered_many_arg20', 'q_ordered_many.cpp', {'NN': 20, 'CMP': 0}, covers=4, bounds=_OM % (20, 'user comparator on the first argument')),
        Run('q_ordered_many_event40', 'q_ordered_many.cpp', {'NN': 40, 'CMP': 1}, covers=4, bounds=_OM % (40, 'default comparator (by event)'))]
PROPS['C13'] = Prop(
    quick=[Run('q_ordered_asc_k3', 'q_history.cpp', {'KK': 3, 'RA': 1, 'PAYLOAD': 0, 'ORDERED': 1}, covers=13, bounds=_OQ % ('ascending on the first argument', 3, 1)),
           Run('q_ordered_desc_k3', 'q_history.cpp', {'KK': 3, 'RA': 0, 'PAYLOAD': 0, 'ORDERED': 2}, covers=13, optional_covers=(4, 5), bounds=_OQ % ('descending on the first argument', 3, 0)),
           Run('q_ordered_event_k3', 'q_history.cpp', {'KK': 3, 'RA': 0, 'PAYLOAD': 0, 'ORDERED': 3}, covers=13, optional_covers=(4, 5), bounds='default OrderedQueueListCompare (orders by event, 2 concrete event keys), K=3, payload symbolic')] + _OMR,
    thorough=_OMR + [Run('q_ordered_asc_k4', 'q_history.cpp', {'KK': 4, 'RA': 1, 'PAYLOAD': 0, 'ORDERED': 1}, covers=13, budget_s=1700, bounds=_OQ % ('ascending on the first argument', 4, 1)),
              Run('q_ordered_desc_k4', 'q_history.cpp', {'KK': 4, 'RA': 1, 'PAYLOAD': 0, 'ORDERED': 2}, covers=13, budget_s=1700, bounds=_OQ % ('descending on the first argument', 4, 1)),
              Run('q_ordered_event_k4', 'q_history.cpp', {'KK': 4, 'RA': 1, 'PAYLOAD': 0, 'ORDERED': 3}, covers=13, budget_s=1700, bounds='default comparator by event, K=4, RA=1')],
    outside='more than K steps / K pending events (std::list::sort is executed in full, no unwinding cut); comparators that are not strict weak orders',
    assumptions=['the reference model keeps the pending events in stable comparator order (insertion after every event that does not compare greater)'])

_CM = ('%s: up to 3 objects in storage pre-filled with arbitrary (symbolic) bytes; source built by append+prepend%s; K=%d steps from add / remove-first (heter: prepend) / copy-construct / move-construct / '
       'copy-assign (incl. self) / move-assign / swap (incl. self)%s; after every step every live object is invoked (symbolic arguments) and compared with its own model')
def _cm(name, objk, k, cls, extra='', q='', **kw):
    oc = tuple(kw.pop('optional_covers', ())) + ((9, 10) if objk != 2 else ())
    return Run(name, 'copymove.cpp', {'KK': k, 'OBJ': objk}, covers=11, optional_covers=oc, bounds=_CM % (cls, extra, k, q), **kw)
PROPS['C10'] = Prop(
    quick=[_cm('copymove_cl_k3', 0, 3, 'CallbackList', ', generation counter at a symbolic position', optional_covers=(8,)),
           _cm('copymove_disp_k2', 1, 2, 'EventDispatcher', optional_covers=(7, 8)),
           _cm('copymove_queue_k3', 2, 3, 'EventQueue', q=' / enqueue / process / copy-construct from inside a listener during process() / copy-construct while a DisableQueueNotify guard is alive; emptyQueue() and waitFor(0) checked on every object'),
           Run('copymove_disp_filters_k2', 'copymove.cpp', {'KK': 2, 'OBJ': 1, 'FILTERS': None}, covers=12, optional_covers=(7, 8, 9, 10), bounds='EventDispatcher with MixinFilter: one initial filter (filters observe and rewrite the argument); K=2 steps from the C10 alphabet + add filter / add-and-remove filter; after every step every live object is dispatched and must run ITS filters in order, then its listeners with the rewritten argument'),
           Run('copymove_queue_filters_k2', 'copymove.cpp', {'KK': 2, 'OBJ': 2, 'FILTERS': None}, covers=12, optional_covers=(7, 8, 9, 10), bounds='EventQueue with MixinFilter, K=2, as above + enqueue / process (queued events pass the filters of the object that processes them)'),
           _cm('copymove_hcl_k2', 3, 2, 'HeterCallbackList (2 prototypes)', optional_covers=(7, 8)),
           _cm('copymove_hdisp_k2', 4, 2, 'HeterEventDispatcher', optional_covers=(7, 8)),
           _cm('copymove_hqueue_k2', 5, 2, 'HeterEventQueue', q=' / enqueue / process', optional_covers=(7, 8))],
    thorough=[_cm('copymove_cl_k4', 0, 4, 'CallbackList', ', generation counter at a symbolic position', optional_covers=(8,), budget_s=1700),
              _cm('copymove_disp_k3', 1, 3, 'EventDispatcher', optional_covers=(8,), budget_s=1700),
              _cm('copymove_queue_k4', 2, 4, 'EventQueue', q=' / enqueue / process', budget_s=1700),
              _cm('copymove_hcl_k3', 3, 3, 'HeterCallbackList', optional_covers=(8,), budget_s=1700),
              _cm('copymove_hdisp_k3', 4, 3, 'HeterEventDispatcher', optional_covers=(8,), budget_s=1700),
              _cm('copymove_hqueue_k3', 5, 3, 'HeterEventQueue', q=' / enqueue / process', budget_s=1700)],
    outside='more than 3 objects / K steps; -std other than c++17 in this check (C20 re-runs it at c++11/14/20); MixinFilter state (C12)',
    assumptions=['objects are placement-constructed into vf_havoc()ed storage, so a member a constructor forgets reads as arbitrary bytes chosen by the solver',
                 'Threading = instrumented policy (mutex, atomics, condition variable) so waitFor(0) is executed through the real wait_for predicate loop'])

_RM = '%s on %s: listeners L0, W (wrapped), L2; %d top-level triggers%s; W and L0 may re-dispatch their own event (nested trigger budget %d); helper object destroyed before the first trigger on one branch; %s'
def _rm(name, tk, rk, tt, nb, tgt, **kw):
    what = ['CounterRemover', 'ConditionalRemover (condition takes the arguments)', 'ConditionalRemover (condition takes no arguments)', 'ConditionalRemover (condition callable with and without the arguments)', 'ConditionalRemover (condition object with its own state: every evaluation on the one stored object)', 'ConditionalRemover (condition returns a mask 0 / 0x40, not a bool: it holds when the result converts to true)'][rk]
    sym = 'trigger count n is a fully symbolic 32-bit int' if rk == 0 else 'condition outcome is a symbolic bit per evaluation'
    oc = (4,) if rk == 0 else (1, 2, 3)
    if tk != 2: oc = oc + (6,)
    return Run(name, 'removers.cpp', {'TK': tk, 'RK': rk, 'TT': tt, 'NB': nb}, covers=7, optional_covers=oc, bounds=_RM % (what, tgt, tt, ' (alternately direct and enqueue+process)' if tk == 2 else '', nb, sym), **kw)
PROPS['C16'] = Prop(
    quick=[_rm('counter_cl', 0, 0, 4, 1, 'CallbackList'), _rm('counter_disp', 1, 0, 4, 1, 'EventDispatcher'), _rm('counter_queue', 2, 0, 4, 1, 'EventQueue'),
           _rm('cond_args_cl', 0, 1, 4, 1, 'CallbackList'), _rm('cond_noargs_disp', 1, 2, 4, 1, 'EventDispatcher'), _rm('cond_args_queue', 2, 1, 3, 1, 'EventQueue'), _rm('cond_both_disp', 1, 3, 3, 1, 'EventDispatcher'), _rm('cond_state_disp', 1, 4, 3, 1, 'EventDispatcher'), _rm('cond_state_cl', 0, 4, 3, 1, 'CallbackList'), _rm('cond_mask_cl', 0, 5, 3, 1, 'CallbackList'), _rm('cond_mask_queue', 2, 5, 3, 1, 'EventQueue'),
           _rm('counter_hdisp', 3, 0, 3, 1, 'HeterEventDispatcher'),
           Run('counter_under_faults', 'faults.cpp', {'CLASS': 2}, exc=True, own_new=True, faults=1, covers=6, optional_covers=(3, 5), native=('clang-O1-san', 'clang-O1'),
               bounds='C16 x exceptions: the dispatcher fault run of C09 (F=1), which contains: a CounterRemover listener with count 2 whose invocation throws on trigger 1 or 2 has still been invoked -- it runs on exactly the first two triggers and never on a third'),
           BmcRun('counter_wrapper_cbmc', 'counter_kernel.cpp', 'counter_laws.c', unwind=7, bounds='E-bmc cross-check: the real CounterRemover wrapper operator() with a stub dispatcher, translated IR->C and decided by CBMC for EVERY 32-bit trigger count and 0..5 triggers; every nsw operation asserted (signed overflow); unwind 7 with unwinding assertions')],
    thorough=[_rm('counter_cl_t', 0, 0, 5, 2, 'CallbackList', budget_s=1700), _rm('counter_disp_t', 1, 0, 5, 2, 'EventDispatcher', budget_s=1700), _rm('counter_queue_t', 2, 0, 5, 2, 'EventQueue', budget_s=1700),
              _rm('cond_args_cl_t', 0, 1, 5, 2, 'CallbackList', budget_s=1700), _rm('cond_noargs_cl_t', 0, 2, 5, 2, 'CallbackList', budget_s=1700),
              _rm('cond_noargs_disp_t', 1, 2, 5, 2, 'EventDispatcher', budget_s=1700), _rm('cond_args_queue_t', 2, 1, 5, 2, 'EventQueue', budget_s=1700), _rm('cond_both_cl_t', 0, 3, 4, 2, 'CallbackList', budget_s=1700), _rm('cond_state_disp_t', 1, 4, 4, 2, 'EventDispatcher', budget_s=1700), _rm('cond_state_cl_t', 0, 4, 4, 2, 'CallbackList', budget_s=1700), _rm('cond_state_queue_t', 2, 4, 4, 2, 'EventQueue', budget_s=1700), _rm('cond_both_queue_t', 2, 3, 4, 2, 'EventQueue', budget_s=1700),
              _rm('counter_hdisp_t', 3, 0, 4, 2, 'HeterEventDispatcher', budget_s=1700),               BmcRun('counter_wrapper_cbmc', 'counter_kernel.cpp', 'counter_laws.c', unwind=7, bounds='E-bmc cross-check as in the quick tier')],
    outside='more than TT top-level triggers (TT+NB triggers separate n<=1, 2, ..., TT+NB, larger); several wrapped listeners at once; threads; ConditionalRemover on a HeterEventDispatcher whose FIRST prototype is not the wrapped listener\'s (its generic wrapper binds to the first listed prototype: such a registration does not compile, by the library\'s binding rule)',
    assumptions=['Callback type is the default std::function (the removers wrap the listener in their own functor type); engine checks add/sub nsw, so signed overflow of the trigger count is a violation'])

_AI = 'AnyId<Dig,%s>: three ids (%s) with fully symbolic 64-bit digests and 32-bit values of two value types; the digest is constrained only to be a function of the value (collisions allowed)'
def _c18(tier):
    q = tier == 'quick'
    dv = (lambda v: {'DISPV': v}) if q else (lambda v: {})
    how = lambda v: ('; dispatched ' + ['by a temporary id', 'by an id object (non-const lvalue)', 'by a const id object', 'by the raw value (converted by the dispatcher)'][v]) if q else '; dispatched by a temporary id / an id lvalue / a const id / the raw value (all four)'
    allhow = '; dispatched by a temporary id / an id lvalue / a const id / the raw value (all four)'
    reg = '; listeners registered through an id lvalue, a raw value and a temporary id'
    def R(name, st, mk, text, d=None, **kw):
        defs = {'STORAGE': st, 'MAPK': mk}; defs.update(d or {})
        return Run(name, 'anyid.cpp', defs, covers=3 if mk == 0 else 5, optional_covers=() if mk == 0 else (1, 2), bounds=text, **kw)
    laws = 'laws (equivalence, strict weak order, incomparability = equality, hash agreement, copies/moves/assignment of ids are the same id)'
    return [R('anyid_laws_storage', 1, 0, _AI % ('value storage with == and <', laws)),
            R('anyid_laws_storage_freedig', 1, 0, _AI % ('value storage with == and <', laws) + '; here the digest is NOT constrained to be a function of the stored value (different source types stored as the same value)', {'FREEDIG': None}),
            R('anyid_hash_storage_freedig', 1, 2, _AI % ('value storage', 'std::unordered_map dispatcher: 2 registered ids, dispatch by a 3rd; 8-bit digests') + '; digest not a function of the stored value' + reg + how(0), dict(dv(0), FREEDIG=None), budget_s=900),
            R('anyid_laws_nostorage', 0, 0, _AI % ('EmptyAnyStorage', laws)),
            R('anyid_laws_nostorage_d128', 0, 0, _AI % ('EmptyAnyStorage', laws) + '; the Digester returns a 128-bit digest (wider than size_t), both halves symbolic', {'DIGW': 128}),
            R('anyid_laws_typedstorage_freedig', 3, 0, _AI % ('Storage with NEITHER == nor < that is constructible from any type and has a type() member (std::any-like)', laws) + '; digest not a function of the stored value: values of different stored types may share a digest and are then the same id', {'FREEDIG': None}),
            R('anyid_laws_foreignstorage', 4, 0, _AI % ('value storage of a foreign namespace whose == and < are declared by the application at GLOBAL scope before the library headers (found by ordinary lookup only, not by ADL)', laws)),
            R('anyid_laws_anystorage', 2, 0, _AI % ('value storage constructible from a value of ANY type (std::any-like), with == and <', laws)),
            BmcRun('anyid_laws_cbmc', 'anyid_kernel.cpp', 'anyid_laws.c', bounds='E-bmc cross-check: the real operator==, operator< and std::hash<AnyId> (both storages) lowered by clang, translated IR->C, and 15 laws over three ids decided by CBMC in one merged formula: fully symbolic 64-bit digests and 32-bit values, no loops (unwind 4 with unwinding assertions)'),
            R('anyid_map_anystorage', 2, 1, _AI % ('value storage constructible from any type', 'std::map dispatcher: 3 registered ids, dispatch by a 4th') + reg + how(1), dv(1), budget_s=900),
            R('anyid_map_storage', 1, 1, _AI % ('value storage', 'std::map dispatcher: 3 registered ids, dispatch by a 4th') + reg + how(0), dv(0), budget_s=900),
            R('anyid_hash_storage', 1, 2, _AI % ('value storage', 'std::unordered_map dispatcher: 2 registered ids, dispatch by a 3rd; digests restricted to 8 significant bits in this run (13 buckets: every symbolic lookup forks 13 ways)') + reg + how(1), dv(1), budget_s=1700),
            R('anyid_map_nostorage', 0, 1, _AI % ('EmptyAnyStorage', 'std::map dispatcher') + reg + allhow),
            R('anyid_hash_nostorage', 0, 2, _AI % ('EmptyAnyStorage', 'std::unordered_map dispatcher: 2 registered ids + 1; digests restricted to 8 significant bits in this run') + reg + how(3), dv(3), budget_s=900)]
PROPS['C18'] = Prop(
    quick=_c18('quick'), thorough=_c18('thorough'),
    outside='more than three ids in a law / four in a dispatcher; Storage types supporting only one of == and <; std::any itself (it has no == / <); digest types other than 64 and 128 bits',
    assumptions=['Digester is a functional stub (arbitrary 64-bit digest per distinct value); unordered_map bucket growth is the model in support/stdsupport.cpp'])

_AD = ('AnyData<%d> (effective capacity %d): stored types = trivially copyable structs of 1, 2, 8, cap-1, cap, cap+1, cap+9 bytes with fully symbolic contents; ledger-tracked copyable and move-only '
       'structs of 9, cap-1, cap, cap+1, cap+9 bytes; shared_ptr<int>; a type with an initializer_list constructor whose element type is constructible from the type itself; constructed from lvalue / const lvalue / rvalue; chain of <= 2 moves; EventQueue round trip with slot reuse')
PROPS['C17'] = Prop(
    quick=[Run('anydata_m16', 'anydata.cpp', {'MM': 16}, covers=9, native=('gxx-O0-san', 'gxx-O2', 'clang-O1'), bounds=_AD % (16, 16)),
           Run('anydata_m1', 'anydata.cpp', {'MM': 1}, covers=9, native=('gxx-O0-san', 'gxx-O2', 'clang-O1'), bounds=_AD % (1, 16)),
           Run('anydata_m24', 'anydata.cpp', {'MM': 24}, covers=9, native=('gxx-O0-san', 'gxx-O2', 'clang-O1'), bounds=_AD % (24, 24))],
    outside='stored sizes other than the listed ones (sizes are compile-time: enumerated by template instantiation, not symbolic); chains of more than 2 moves; types with alignment > 8',
    assumptions=['type identity is checked against the instantiated set of types only'])

_RT = ['int key, prototype void(int, Val), event included (AutoDetect)', 'int key, prototype void(Val), ArgumentPassingExcludeEvent', 'user key type with emptying move constructor, by value in the prototype',
       'getEvent policy (const Ev&, const Val&)', 'getEvent policy taking its parameters by value', 'enum class key, ArgumentPassingIncludeEvent', 'std::string key (20 chars, beyond SSO) by value', 'event excluded from the prototype with a non-identity getEvent policy (code >> 8)', 'int key, prototype void(int, Val&): listeners modify the argument', 'getEvent policy returning a const reference into its argument; the event object is itself convertible to the key type (to another value)']
_MK = ['default map', 'std::map', 'std::unordered_map']
def _rt(cfg, mapk, **kw):
    d = {'CFG': cfg, 'MAPK': mapk}; viaq = kw.pop('viaqueue', False)
    if viaq: d['VIAQUEUE'] = None
    return Run('routing_cfg%d_map%d%s' % (cfg, mapk, '_queue' if viaq else ''), 'disp_routing.cpp', d, covers=6, native=('gxx-O0-san', 'gxx-O2', 'clang-O1'),
               bounds=('EventQueue (every dispatch = enqueue + process), ' if viaq else 'EventDispatcher, ') + '%s, %s; two registered keys (2 listeners each: one by value that consumes its copy, one by const reference) and the dispatched key are %s; payload symbolic; dispatched from temporaries and from lvalues'
                      % (_RT[cfg], _MK[mapk], 'symbolic 32-bit values (8 significant bits with hashed maps)' if cfg != 6 else 'chosen among 4 strings'), **kw)
PROPS['C04'] = Prop(
    quick=[_rt(0, 1), _rt(1, 0), _rt(2, 1), _rt(3, 2), _rt(4, 1), _rt(5, 1), _rt(7, 1), _rt(8, 1), _rt(2, 1, viaqueue=True), _rt(3, 1, viaqueue=True), _rt(6, 1), _rt(6, 0), _rt(6, 1, viaqueue=True), _rt(9, 1), _rt(9, 1, viaqueue=True)],
    thorough=[_rt(c, m) for c in (0, 1, 2, 3, 4, 5, 6, 7, 8, 9) for m in range(3) if not (c in (7, 8) and m != 1)] + [_rt(c, 1, viaqueue=True) for c in (0, 1, 2, 3, 4, 5, 6, 9)],
    outside='std::string keys other than the four 20-character strings of configuration 6 (basic_string<char> is instantiated explicitly in the harness TU, std::_Hash_bytes is re-implemented in the support TU and compared with libstdc++.so on every run); more than two registered keys; per-event listener histories beyond append (those are C01/C02 on the per-event CallbackList); compilers other than clang-14 are covered only by native replay of the witness paths (g++ -O0/-O2, clang++ -O1), not by the solver',
    assumptions=['Callback type is std::function; listeners of one event take the payload by value (and move from their copy) and by const reference',
                 'a witness path on which a g++ build violates an assertion while the clang build and the engine agree is reported as a violation (compiler-dependent behaviour)'])

_HT = ('%s with prototypes void(), void(uint32_t), void(const Big&), void(Trk, uint32_t) (Big: 48 bytes owning a heap cell; Trk: ledger-counted); one callback per prototype initially; '
       'K=%d steps from append/prepend callback of prototype p, remove through a handle, invoke/dispatch with the argument list of prototype p%s; payloads symbolic')
_VC = 'value categories: prototypes void(Big&), void(Big), void(uint32_t, const Big&) on %s; invoked with a modifiable lvalue / const lvalue / temporary / xvalue / two arguments; symbolic payload; exactly the callbacks of the first prototype callable with the argument types run, in order, once each, arguments intact'
_VCR = [Run('heter_valcat_cl', 'heter_valcat.cpp', {'OBJ': 0}, covers=5, bounds=_VC % 'HeterCallbackList'), Run('heter_valcat_disp', 'heter_valcat.cpp', {'OBJ': 1}, covers=5, bounds=_VC % 'HeterEventDispatcher'),
        Run('heter_valcat_queue', 'heter_valcat.cpp', {'OBJ': 2}, covers=5, bounds=_VC % 'HeterEventQueue::dispatch'),
        Run('heter_valcat_enqueue', 'heter_valcat.cpp', {'OBJ': 2, 'VIAQ': 1}, covers=5, optional_covers=(0, 1, 2, 3, 4), bounds=_VC % 'HeterEventQueue, enqueue + process (targeted configuration of known finding KF-C14-1: the modifiable-lvalue case)')]
_HI = 'ArgumentPassingIncludeEvent with a key type whose moved-from state differs from its value (std::map): %s; the key is passed as temporary / lvalue / const lvalue / xvalue; registered key and dispatched key symbolic; two prototypes; listeners must see the key and value the caller passed'
_HX = 'default ArgumentPassingExcludeEvent mode with a getEvent policy that takes the move-sensitive ARGUMENT by value and consumes its copy: %s; the argument is passed as temporary / lvalue / const lvalue / xvalue; registered event, dispatched event and argument symbolic; two prototypes; the listeners (also of the queued event) must see the caller\'s value, the caller\'s lvalue stays intact'
_HIR = [Run('heter_include_disp', 'heter_include.cpp', {'OBJ': 1}, covers=6, native=('gxx-O0-san', 'gxx-O2', 'clang-O1'), bounds=_HI % 'HeterEventDispatcher'),
        Run('heter_include_queue', 'heter_include.cpp', {'OBJ': 2}, covers=6, native=('gxx-O0-san', 'gxx-O2', 'clang-O1'), bounds=_HI % 'HeterEventQueue (dispatch, and enqueue + process)'),
        Run('heter_exclude_policy_disp', 'heter_include.cpp', {'OBJ': 1, 'EXCL': None}, covers=6, native=('gxx-O0-san', 'gxx-O2', 'clang-O1'), bounds=_HX % 'HeterEventDispatcher'),
        Run('heter_exclude_policy_queue', 'heter_include.cpp', {'OBJ': 2, 'EXCL': None}, covers=6, native=('gxx-O0-san', 'gxx-O2', 'clang-O1'), bounds=_HX % 'HeterEventQueue (dispatch, and enqueue + process)')]
PROPS['C14'] = Prop(
    quick=[Run('heter_queue_k2', 'heter.cpp', {'OBJ': 2, 'KK': 2}, covers=9, optional_covers=(1, 3), bounds=_HT % ('HeterEventQueue', 2, ', insert before a handle of any prototype, enqueue of prototype p (also with a convertible argument type), process, processOne, processIf with a predicate callable with exactly one prototype or with all of them (verdict = function of the symbolic payload), one re-entrant enqueue, final drain')),
           Run('heter_queue_qops_k3', 'heter.cpp', {'OBJ': 2, 'KK': 3, 'QOPS_ONLY': None}, covers=9, optional_covers=(0, 6, 7), bounds=_HT % ('HeterEventQueue', 3, '; this run draws only queue operations: enqueue / process / processOne / processIf')),
           Run('heter_cl_k2', 'heter.cpp', {'OBJ': 0, 'KK': 2}, covers=8, optional_covers=(1, 2, 3, 4, 5), bounds=_HT % ('HeterCallbackList', 2, ', insert before a handle of any prototype')),
           Run('heter_disp_k2', 'heter.cpp', {'OBJ': 1, 'KK': 2}, covers=8, optional_covers=(1, 2, 3, 4, 5), bounds=_HT % ('HeterEventDispatcher', 2, ', insert before a handle of any prototype'))] + _VCR + _HIR,
    thorough=_VCR + _HIR + [Run('heter_queue_k3', 'heter.cpp', {'OBJ': 2, 'KK': 3}, covers=9, budget_s=1700, bounds=_HT % ('HeterEventQueue', 3, ', insert, enqueue, process, processOne, processIf')),
              Run('heter_queue_qops_k4', 'heter.cpp', {'OBJ': 2, 'KK': 4, 'QOPS_ONLY': None}, covers=9, optional_covers=(0, 6, 7), budget_s=1700, bounds=_HT % ('HeterEventQueue', 4, '; queue operations only')),
              Run('heter_cl_k3', 'heter.cpp', {'OBJ': 0, 'KK': 3}, covers=8, optional_covers=(1, 2, 3, 4, 5), budget_s=1700, bounds=_HT % ('HeterCallbackList', 3, ', insert')),
              Run('heter_disp_k3', 'heter.cpp', {'OBJ': 1, 'KK': 3}, covers=8, optional_covers=(1, 2, 3, 4, 5), budget_s=1700, bounds=_HT % ('HeterEventDispatcher', 3, ', insert'))],
    outside='more than K steps; prototype lists other than the one instantiated; ArgumentPassingIncludeEvent for heterogeneous classes; callbacks callable with several prototypes',
    assumptions=['type confusion is observable three ways: ledger of the tracked types, engine memory checks (non-pointer data used as pointer, out of bounds), wrong trace'])

_FB = '%s: K=%d steps from appendFilter (symbolic verdict and symbolic rewrite of the first argument on every call) / removeFilter(handle) / appendListener / dispatch%s; arguments symbolic'
def _fl(name, tk, k, what, extra='', **kw):
    d = {'TK': tk, 'KK': k}
    if 'pre' in kw: d['PRE'] = kw.pop('pre'); extra += '; %d filters installed before the free steps' % d['PRE']
    return Run(name, 'filters.cpp', d, covers=8, bounds=_FB % (what, k, extra), **kw)
PROPS['C12'] = Prop(
    quick=[_fl('filter_disp_k4', 0, 4, 'EventDispatcher + MixinFilter', optional_covers=(3, 5, 6, 7)),
           _fl('filter_disp_pre2_k3', 0, 3, 'EventDispatcher + MixinFilter', optional_covers=(3, 5, 6, 7), pre=2),
           _fl('filter_queue_k4', 1, 4, 'EventQueue + MixinFilter', ' (direct, or enqueue + process)', optional_covers=(5, 6, 7)),
           _fl('filter_heter_k3', 2, 3, 'HeterEventDispatcher + MixinHeterFilter', optional_covers=(2, 3, 4, 5, 6, 7)),
           _fl('filter_gate_k3', 3, 3, 'EventDispatcher + MixinList<user mixin with mixinBeforeDispatch (symbolic verdict), MixinFilter>', optional_covers=(2, 3, 4, 5, 6)),
           _fl('filter_plain_after_k3', 8, 3, 'EventDispatcher + MixinList<MixinFilter, user mixin without mixinBeforeDispatch>', optional_covers=(2, 3, 4, 5, 6, 7)),
           _fl('filter_plain_before_k2', 7, 2, 'EventDispatcher + MixinList<user mixin without mixinBeforeDispatch, MixinFilter> (targeted configuration of known finding KF-C12-1)', optional_covers=(0, 1, 2, 3, 4, 5, 6, 7)),
           Run('continue_policy', 'filters.cpp', {'TK': 4}, covers=8, optional_covers=(0, 1, 2, 3, 4, 6, 7), bounds='CallbackList<void(uint32_t&)> with canContinueInvoking(a) = a < t: 2..4 listeners adding symbolic increments, symbolic threshold t and argument'),
           Run('conditional_functor', 'filters.cpp', {'TK': 5}, covers=8, optional_covers=(0, 1, 2, 3, 4, 5, 7), bounds='conditionalFunctor with condition (a & mask) == want, mask/want/arguments symbolic, two dispatches'),
           Run('argument_adapter_numeric', 'filters.cpp', {'TK': 6, 'ADAPT': 0}, covers=8, optional_covers=(0, 1, 2, 3, 4, 5, 6, 7), bounds='argumentAdapter: int64->int32 and uint32->uint16, symbolic values'),
           Run('argument_adapter_pointer', 'filters.cpp', {'TK': 6, 'ADAPT': 1}, covers=8, optional_covers=(0, 1, 2, 3, 4, 5, 6, 7), bounds='argumentAdapter: Base* -> Derived* with Base at a non-zero offset'),
           Run('argument_adapter_sharedptr', 'filters.cpp', {'TK': 6, 'ADAPT': 2}, covers=8, optional_covers=(0, 1, 2, 3, 4, 5, 6, 7), bounds='argumentAdapter: shared_ptr<Base> -> shared_ptr<Derived>'),
           Run('argument_adapter_byvalue', 'filters.cpp', {'TK': 6, 'ADAPT': 3}, covers=8, optional_covers=(0, 1, 2, 3, 4, 5, 6, 7), bounds='argumentAdapter: prototype passes a movable class by non-const lvalue reference, two adapter-wrapped listeners take it by value, a plain listener and the caller read it afterwards; value symbolic'),
           BmcRun('functor_kernels_cbmc', 'functor_kernel.cpp', 'functor_laws.c', bounds='E-bmc cross-check: the real ConditionalFunctor::operator() and ArgumentAdapter::operator() translated IR->C and decided by CBMC for every 32/64-bit argument, mask and comparand')],
    thorough=[_fl('filter_disp_k5', 0, 5, 'EventDispatcher + MixinFilter', optional_covers=(3, 5, 6, 7), budget_s=1700),
              _fl('filter_queue_k5', 1, 5, 'EventQueue + MixinFilter', ' (direct, or enqueue + process)', optional_covers=(5, 6, 7), budget_s=1700),
              _fl('filter_heter_k4', 2, 4, 'HeterEventDispatcher + MixinHeterFilter', optional_covers=(3, 5, 6, 7), budget_s=1700),
              _fl('filter_gate_k4', 3, 4, 'EventDispatcher + MixinList<user mixin, MixinFilter>', optional_covers=(3, 5, 6), budget_s=1700),
              _fl('filter_plain_after_k4', 8, 4, 'EventDispatcher + MixinList<MixinFilter, user mixin without mixinBeforeDispatch>', optional_covers=(3, 5, 6, 7), budget_s=1700),
              _fl('filter_plain_before_k2', 7, 2, 'EventDispatcher + MixinList<user mixin without mixinBeforeDispatch, MixinFilter> (targeted configuration of known finding KF-C12-1)', optional_covers=(0, 1, 2, 3, 4, 5, 6, 7)),
              Run('continue_policy', 'filters.cpp', {'TK': 4}, covers=8, optional_covers=(0, 1, 2, 3, 4, 6, 7), bounds='as quick'),
              Run('conditional_functor', 'filters.cpp', {'TK': 5}, covers=8, optional_covers=(0, 1, 2, 3, 4, 5, 7), bounds='as quick'),
              Run('argument_adapter', 'filters.cpp', {'TK': 6}, covers=8, optional_covers=(0, 1, 2, 3, 4, 5, 6, 7), bounds='argumentAdapter, all four conversion kinds of the quick tier in one translation unit'),
              BmcRun('functor_kernels_cbmc', 'functor_kernel.cpp', 'functor_laws.c', bounds='E-bmc cross-check as in the quick tier')],
    outside='more than K steps; filters that add/remove filters while running (CallbackList nesting rules, C02); HeterEventQueue + MixinHeterFilter (does not compile in the unmodified library: private PrototypeList alias)',
    assumptions=['filter verdicts and rewrites are fresh symbolic values on every dispatch'])

_TH = ('%s, Threading = %s; initial list [A, B] with shared handles; T=%d threads x S=%d operations each chosen from append / prepend / insert-before-B / remove B / remove A / ownsHandle B / empty / invoke; '
       'every schedule with at most P=%d preemptions; scheduling points: %s')
_SP_HOOKS = 'every mutex / atomic / condition-variable operation of the instrumented policy'
_SP_AUTO = _SP_HOOKS + ' plus every plain load/store from eventpp code to a heap/global object another thread has touched (automatic points; engine verdict only, not natively replayable)'
_NOREP3 = '(engine verdict only: the per-prototype lists inside the heterogeneous classes use std::mutex whatever the Threading policy says) '
_LK = ('lock primitive behind the multi-threaded policy: %s used through the Threading::Mutex interface (std::lock_guard); T=%d threads x %d rounds of lock / critical section with scheduling points between the read and the write of a plain counter / unlock; '
       'every schedule with at most P=%d preemptions, every atomic of the lock is a scheduling point; mutual exclusion, no lost update, no thread left spinning or blocked, lock free at the end')
def _lk(name, kind, t, r, p, what, **kw):
    return Run(name, 'spinlock.cpp', {'LOCKKIND': kind, 'TT': t, 'RR': r}, preempt=p, covers=2, optional_covers=(0,), mt=True, native=(), linetables=True, bounds=_LK % (what, t, r, p), **kw)
_LKQ = [_lk('spinlock_t2_r2_p4', 0, 2, 2, 4, 'eventpp::SpinLock (real code)'), _lk('spinlock_t3_r1_p3', 0, 3, 1, 3, 'eventpp::SpinLock (real code)'),
        Run('spinlock_callbacklist_t2_p3', 'spinlock.cpp', {'LOCKKIND': 2, 'TT': 2, 'RR': 2}, preempt=3, covers=2, mt=True, native=(), linetables=True, bounds='CallbackList under GeneralThreading<SpinLock> (real SpinLock on IR atomics): 2 threads x (2 appends + remove of the first), P<=3; survivors exactly once, in per-thread order')]
_LKT = [_lk('spinlock_t2_r3_p5', 0, 2, 3, 5, 'eventpp::SpinLock (real code)', budget_s=1700), _lk('spinlock_t3_r2_p3', 0, 3, 2, 3, 'eventpp::SpinLock (real code)', budget_s=1700),
        _lk('stdmutex_t2_r2_p4', 1, 2, 2, 4, 'std::mutex (engine model of pthread_mutex_*; control run for the oracle)')]
_LKQUEUE = [Run('spinlock_queue_t3_p3', 'spinlock.cpp', {'LOCKKIND': 3, 'TT': 3, 'RR': 1}, preempt=3, covers=2, mt=True, native=(), linetables=True, bounds='EventQueue under GeneralThreading<SpinLock> (real SpinLock on IR atomics): 2 producers x 1 enqueue + 1 consumer (process, processOne), a recycled slot exists at the start, P<=3; after the join the queue is drained: every event exactly once, per producer in order'),
            _lk('spinlock_t2_r2_p4', 0, 2, 2, 4, 'eventpp::SpinLock (real code)')]
PROPS['C03'] = Prop(
    quick=_LKQ + [Run('cl_threads_s1_wrap_hooks_p2', 'cl_threads.cpp', {'TT': 2, 'SS': 1, 'WRAPC': None}, preempt=2, covers=4, optional_covers=(0, 1, 2, 3), mt=True, bounds=_TH % ('CallbackList whose generation counter is 0..1 additions before its wrap (C03 x C19)', 'instrumented policy', 2, 1, 2, _SP_HOOKS)),
           Run('cl_threads_s1_hooks_p2', 'cl_threads.cpp', {'TT': 2, 'SS': 1}, preempt=2, covers=4, optional_covers=(2,), mt=True, bounds=_TH % ('CallbackList', 'instrumented policy', 2, 1, 2, _SP_HOOKS)),
           Run('cl_threads_s2_hooks_p1', 'cl_threads.cpp', {'TT': 2, 'SS': 2, 'OPSET': 1}, preempt=1, covers=4, mt=True, bounds=_TH % ('CallbackList', 'instrumented policy', 2, 2, 1, _SP_HOOKS) + '; reduced operation alphabet (append, prepend, insert-before-B, remove B, ownsHandle B, invoke)'),
           Run('cl_threads_s1_auto_p2', 'cl_threads.cpp', {'TT': 2, 'SS': 1}, preempt=2, covers=4, optional_covers=(2,), mt=True, shared_points=True, native=(), bounds=_TH % ('CallbackList', 'instrumented policy', 2, 1, 2, _SP_AUTO)),
           Run('cl_threads_s1_empty_hooks_p2', 'cl_threads.cpp', {'TT': 2, 'SS': 1, 'INIT': 0}, preempt=2, covers=4, optional_covers=(0, 1, 2), mt=True, bounds=_TH % ('CallbackList', 'instrumented policy', 2, 1, 2, _SP_HOOKS) + '; list initially EMPTY (handles A, B are empty handles)'),
           Run('disp_threads_s1_empty_hooks_p2', 'cl_threads.cpp', {'TT': 2, 'SS': 1, 'DISP': 1, 'INIT': 0}, preempt=2, covers=4, optional_covers=(0, 1, 2), mt=True, bounds=_TH % ('EventDispatcher', 'instrumented policy', 2, 1, 2, _SP_HOOKS) + '; no listener registered yet for the event (the per-event list is created by the racing calls)'),
           Run('disp_threads_s1_hooks_p2', 'cl_threads.cpp', {'TT': 2, 'SS': 1, 'DISP': 1}, preempt=2, covers=4, optional_covers=(2,), mt=True, bounds=_TH % ('EventDispatcher', 'instrumented policy', 2, 1, 2, _SP_HOOKS)),
           Run('hdisp_threads_empty_s1_auto_p2', 'cl_threads.cpp', {'TT': 2, 'SS': 1, 'DISP': 2, 'OPSET': 3, 'INIT': 0}, preempt=2, covers=4, optional_covers=(0, 1, 2, 3), mt=True, shared_points=True, native=(), bounds=_NOREP3 + _TH % ('HeterEventDispatcher', 'instrumented policy; the dispatcher starts EMPTY: the threads race for the first use of the event and of the per-prototype list', 2, 1, 2, _SP_AUTO)),
           Run('hdisp_threads_grow_s1_auto_p2', 'cl_threads.cpp', {'TT': 2, 'SS': 1, 'DISP': 2, 'OPSET': 3, 'OTHERS': None, 'STDMAP': None}, preempt=2, covers=4, optional_covers=(0, 1, 2, 3), mt=True, shared_points=True, native=(), bounds=_NOREP3 + _TH % ('HeterEventDispatcher', 'instrumented policy; std::map; events 5, 6, 8 registered besides the main event 7, new events 9, 10 registered by the threads (the tree rotates under concurrent lookups)', 2, 1, 2, _SP_AUTO)),
           Run('disp_threads_grow_s1_auto_p2', 'cl_threads.cpp', {'TT': 2, 'SS': 1, 'DISP': 1, 'OPSET': 3, 'OTHERS': None, 'STDMAP': None}, preempt=2, covers=4, optional_covers=(0, 1, 2, 3), mt=True, shared_points=True, native=(), bounds=_TH % ('EventDispatcher', 'instrumented policy; std::map; events 5, 6, 8 registered besides the main event 7, new events 9, 10 registered by the threads (the tree rotates under concurrent lookups)', 2, 1, 2, _SP_AUTO))],
    thorough=_LKT + [Run('hdisp_threads_grow_s2_auto_p1', 'cl_threads.cpp', {'TT': 2, 'SS': 2, 'DISP': 2, 'OPSET': 3, 'OTHERS': None, 'STDMAP': None}, preempt=1, covers=4, optional_covers=(0, 1, 2, 3), mt=True, shared_points=True, native=(), budget_s=1700, bounds=_NOREP3 + _TH % ('HeterEventDispatcher', 'instrumented policy; std::map; events 5, 6, 8 registered besides the main event 7, new events 9, 10 registered by the threads (the tree rotates under concurrent lookups)', 2, 2, 1, _SP_AUTO)),
              Run('disp_threads_grow_hash_s2_auto_p1', 'cl_threads.cpp', {'TT': 2, 'SS': 2, 'DISP': 1, 'OPSET': 3, 'OTHERS': None}, preempt=1, covers=4, optional_covers=(0, 1, 2, 3), mt=True, shared_points=True, native=(), budget_s=1700, bounds=_TH % ('EventDispatcher', 'instrumented policy; default (hashed) map; other events registered besides the main one, new events registered by the threads', 2, 2, 1, _SP_AUTO)),
              Run('cl_threads_s2_hooks_p2', 'cl_threads.cpp', {'TT': 2, 'SS': 2}, preempt=2, covers=4, mt=True, budget_s=1700, bounds=_TH % ('CallbackList', 'instrumented policy', 2, 2, 2, _SP_HOOKS)),
              Run('cl_threads_s2_auto_p1', 'cl_threads.cpp', {'TT': 2, 'SS': 2, 'OPSET': 1}, preempt=1, covers=4, mt=True, shared_points=True, native=(), budget_s=1700, bounds=_TH % ('CallbackList', 'instrumented policy', 2, 2, 1, _SP_AUTO) + '; reduced alphabet'),
              Run('cl_threads_s2_empty_hooks_p2', 'cl_threads.cpp', {'TT': 2, 'SS': 2, 'INIT': 0, 'OPSET': 1}, preempt=2, covers=4, optional_covers=(0, 1), mt=True, budget_s=1700, bounds=_TH % ('CallbackList', 'instrumented policy', 2, 2, 2, _SP_HOOKS) + '; list initially empty; reduced alphabet'),
              Run('cl_threads_t3_hooks_p2', 'cl_threads.cpp', {'TT': 3, 'SS': 1, 'OPSET': 2}, preempt=2, covers=4, optional_covers=(2,), mt=True, budget_s=1700, bounds=_TH % ('CallbackList', 'instrumented policy', 3, 1, 2, _SP_HOOKS) + '; alphabet append / insert-before-B / remove B / invoke'),
              Run('disp_threads_s2_hooks_p1', 'cl_threads.cpp', {'TT': 2, 'SS': 2, 'DISP': 1, 'OPSET': 1}, preempt=1, covers=4, mt=True, budget_s=1700, bounds=_TH % ('EventDispatcher', 'instrumented policy', 2, 2, 1, _SP_HOOKS) + '; reduced alphabet')],
    outside='more than T threads / S operations per thread / P preemptions; weak memory orderings (SC only); data races in the C++ sense on unlocked reads are modelled as atomic accesses at the scheduling points; the reference counting inside std::shared_ptr is executed atomically',
    assumptions=['linearizability oracle: exhaustive search over the orders compatible with program order and real-time order'])

_QT = ('EventQueue, instrumented Threading policy; 0..2 events pending at the start; T=%d threads x S=%d calls each from {%s}%s; every schedule with at most P=%d preemptions; scheduling points: %s')
_OPS1 = 'enqueue, process, processOne, takeEvent'
_OPS2 = 'enqueue, processIf, processUntil, takeEvent, clearEvents'
_OPS0 = 'enqueue, process, processOne, processIf, processUntil, takeEvent, peekEvent, clearEvents'
_OPS3 = 'enqueue, takeEvent, peekEvent'
_OPS4 = 'enqueue, process, processOne, processIf, clearEvents'
_OPS5 = 'enqueue, process, processOne'
_OPS6 = 'enqueue, process, processOne, takeEvent, clearEvents'
_OPS7 = 'enqueue, process, processOne, clearEvents'
_NOREP = '(engine verdict only, no native replay: the per-prototype callback lists inside the heterogeneous classes use std::mutex / std::atomic whatever the Threading policy says, and the native runtime can only schedule the instrumented policy) '
_QTH = _QT.replace('EventQueue,', 'HeterEventQueue (two prototypes),')
_DTORQ = Run('q_history_dtor_enqueue', 'q_history.cpp', {'KK': 2, 'RA': 0, 'PAYLOAD': 1, 'INIT_MAX': 2, 'DTORENQ': None}, covers=14, optional_covers=(0, 1, 2, 3, 4, 5, 6, 7, 8, 9, 10, 11, 12),
              bounds='"no call deadlocks": argument type whose destructor enqueues into the same queue, K=2 steps from every quiescent state with <= 2 pending events and <= 2 recycled slots (single thread; a library lock held across an argument destructor = self-deadlock on the non-recursive mutex)')
PROPS['C06'] = Prop(
    quick=_LKQUEUE + [_DTORQ, Run('q_threads_ops1_s2_p1', 'q_threads.cpp', {'MODE': 6, 'TT': 2, 'SS': 2, 'OPSET': 1}, preempt=1, covers=2, mt=True, bounds=_QT % (2, 2, _OPS1, '', 1, _SP_HOOKS)),
           Run('q_threads_ops2_s1_p2', 'q_threads.cpp', {'MODE': 6, 'TT': 2, 'SS': 1, 'OPSET': 2}, preempt=2, covers=2, optional_covers=(0,), mt=True, bounds=_QT % (2, 1, _OPS2, '', 2, _SP_HOOKS)),
           Run('q_threads_all_s1_auto_p1', 'q_threads.cpp', {'MODE': 6, 'TT': 2, 'SS': 1, 'OPSET': 0}, preempt=1, covers=2, mt=True, shared_points=True, native=(), bounds=_QT % (2, 1, _OPS0, '', 1, _SP_AUTO)),
           Run('q_threads_peek_s2_auto_p1', 'q_threads.cpp', {'MODE': 6, 'TT': 2, 'SS': 2, 'OPSET': 3}, preempt=1, covers=2, optional_covers=(0,), mt=True, shared_points=True, native=(), bounds=_QT % (2, 2, _OPS3, '', 1, _SP_AUTO)),
           Run('hq_threads_s1_auto_p1', 'q_threads.cpp', {'MODE': 6, 'TT': 2, 'SS': 1, 'OPSET': 4, 'HETER': None}, preempt=1, covers=2, optional_covers=(0, 1), mt=True, shared_points=True, native=(), bounds=_QTH % (2, 1, _OPS4, '', 1, _SP_AUTO))],
    thorough=[Run('hq_threads_s2_p1', 'q_threads.cpp', {'MODE': 6, 'TT': 2, 'SS': 2, 'OPSET': 4, 'HETER': None}, preempt=1, covers=2, optional_covers=(0, 1), mt=True, native=(), budget_s=1700, bounds=_NOREP + _QTH % (2, 2, _OPS4, '', 1, _SP_HOOKS)),
              Run('hq_threads_s2_auto_p1', 'q_threads.cpp', {'MODE': 6, 'TT': 2, 'SS': 2, 'OPSET': 5, 'HETER': None}, preempt=1, covers=2, optional_covers=(0, 1), mt=True, shared_points=True, native=(), budget_s=1700, bounds=_QTH % (2, 2, _OPS5, '', 1, _SP_AUTO)),
              Run('hq_threads_s1_auto_p1', 'q_threads.cpp', {'MODE': 6, 'TT': 2, 'SS': 1, 'OPSET': 4, 'HETER': None}, preempt=1, covers=2, optional_covers=(0, 1), mt=True, shared_points=True, native=(), bounds=_QTH % (2, 1, _OPS4, '', 1, _SP_AUTO)),
              Run('q_threads_all_s2_p1', 'q_threads.cpp', {'MODE': 6, 'TT': 2, 'SS': 2, 'OPSET': 0}, preempt=1, covers=2, mt=True, budget_s=1700, bounds=_QT % (2, 2, _OPS0, '', 1, _SP_HOOKS)),
              Run('q_threads_ops1_s2_p2', 'q_threads.cpp', {'MODE': 6, 'TT': 2, 'SS': 2, 'OPSET': 1}, preempt=2, covers=2, mt=True, budget_s=1700, bounds=_QT % (2, 2, _OPS1, '', 2, _SP_HOOKS)),
              Run('q_threads_ops2_s2_p2', 'q_threads.cpp', {'MODE': 6, 'TT': 2, 'SS': 2, 'OPSET': 2}, preempt=2, covers=2, mt=True, budget_s=1700, bounds=_QT % (2, 2, _OPS2, '', 2, _SP_HOOKS)),
              Run('q_threads_t3_ops1_s1_p2', 'q_threads.cpp', {'MODE': 6, 'TT': 3, 'SS': 1, 'OPSET': 1}, preempt=2, covers=2, mt=True, budget_s=1700, bounds=_QT % (3, 1, _OPS1, '', 2, _SP_HOOKS)),
              Run('q_threads_ops1_s2_auto_p1', 'q_threads.cpp', {'MODE': 6, 'TT': 2, 'SS': 2, 'OPSET': 1}, preempt=1, covers=2, mt=True, shared_points=True, native=(), budget_s=1700, bounds=_QT % (2, 2, _OPS1, '', 1, _SP_AUTO))],
    outside='more threads / calls per thread / preemptions than stated; HeterEventQueue under threads; weak memory (SC only)',
    assumptions=['per-event ledger: dispatched + taken <= 1 always, == 1 after the final single-threaded drain unless a clearEvents call could have discarded the event; FIFO per (producer, consumer) pair'])
_DQNV = Run('dqn_values_queue_k3', 'copymove.cpp', {'KK': 3, 'OBJ': 2}, covers=11, optional_covers=(7, 8, 9, 10), bounds='"waitFor times out only while ... no DisableQueueNotify object exists": the C10 queue history (K=3) whose alphabet includes DisableQueueNotify objects used as values (one move-assigned onto the other; a COPY of a guard, destroyed before or after the original; a guard of one queue assigned the guard of another): while a guard or a copy of it is alive waitFor(0) is false, afterwards waitFor(0) reports pending events on every object')
PROPS['C11'] = Prop(
    quick=[_DQNV, Run('q_observer_t1_s2_p3', 'q_threads.cpp', {'MODE': 11, 'TT': 1, 'SS': 2, 'OPSET': 1}, preempt=3, covers=5, optional_covers=(0, 1, 2), mt=True, bounds=_QT % (1, 2, _OPS1, ' + one observer thread calling emptyQueue() or waitFor(timeout); in every run the listener itself also calls emptyQueue() (single-threaded variant)', 3, _SP_HOOKS)),
           Run('q_observer_t1_s1_auto_p2', 'q_threads.cpp', {'MODE': 11, 'TT': 1, 'SS': 1, 'OPSET': 1}, preempt=2, covers=5, optional_covers=(0, 1, 2), mt=True, shared_points=True, native=(), bounds=_QT % (1, 1, _OPS1, ' + one observer thread', 2, _SP_AUTO)),
           Run('q_observer_t2_s1_p1', 'q_threads.cpp', {'MODE': 11, 'TT': 2, 'SS': 1, 'OPSET': 1}, preempt=1, covers=5, optional_covers=(1, 2, 4), mt=True, bounds=_QT % (2, 1, _OPS1, ' + one observer thread', 1, _SP_HOOKS)),
           Run('hq_observer_t1_s2_p2', 'q_threads.cpp', {'MODE': 11, 'TT': 1, 'SS': 2, 'OPSET': 5, 'HETER': None}, preempt=2, covers=5, optional_covers=(0, 1, 2, 3, 4), mt=True, native=(), bounds=_NOREP + _QTH % (1, 2, _OPS5, ' + one observer thread calling emptyQueue() or waitFor()', 2, _SP_HOOKS))],
    thorough=[Run('hq_observer_t1_s2_auto_p2', 'q_threads.cpp', {'MODE': 11, 'TT': 1, 'SS': 2, 'OPSET': 5, 'HETER': None}, preempt=2, covers=5, optional_covers=(0, 1, 2, 3, 4), mt=True, shared_points=True, native=(), budget_s=1700, bounds=_QTH % (1, 2, _OPS5, ' + one observer thread', 2, _SP_AUTO)),
              Run('hq_observer_t2_s1_p2', 'q_threads.cpp', {'MODE': 11, 'TT': 2, 'SS': 1, 'OPSET': 7, 'HETER': None}, preempt=2, covers=5, optional_covers=(0, 1, 2, 3, 4), mt=True, native=(), budget_s=1700, bounds=_NOREP + _QTH % (2, 1, _OPS7, ' + one observer thread', 2, _SP_HOOKS)),
              Run('q_observer_t2_s1_auto_p1', 'q_threads.cpp', {'MODE': 11, 'TT': 2, 'SS': 1, 'OPSET': 1}, preempt=1, covers=5, optional_covers=(1, 2), mt=True, shared_points=True, native=(), budget_s=1700, bounds=_QT % (2, 1, _OPS1, ' + one observer thread', 1, _SP_AUTO)),
              Run('q_observer_ops1_s2_p1', 'q_threads.cpp', {'MODE': 11, 'TT': 2, 'SS': 2, 'OPSET': 1}, preempt=1, covers=5, optional_covers=(2,), mt=True, budget_s=1700, bounds=_QT % (2, 2, _OPS1, ' + one observer thread', 1, _SP_HOOKS)),
              Run('q_observer_ops6_s1_p2', 'q_threads.cpp', {'MODE': 11, 'TT': 2, 'SS': 1, 'OPSET': 6}, preempt=2, covers=5, optional_covers=(2,), mt=True, budget_s=1700, bounds=_QT % (2, 1, _OPS6, ' + one observer thread', 2, _SP_HOOKS)),
              Run('q_observer_t1_s2_auto_p2', 'q_threads.cpp', {'MODE': 11, 'TT': 1, 'SS': 2, 'OPSET': 1}, preempt=2, covers=5, optional_covers=(0, 1, 2), mt=True, shared_points=True, native=(), budget_s=1700, bounds=_QT % (1, 2, _OPS1, ' + one observer thread', 2, _SP_AUTO))],
    outside='more threads / calls / preemptions than stated; the observation is attributed to the interval [call, return] of emptyQueue/waitFor',
    assumptions=['an event counts as consumed when its listener has returned (one listener), when a takeEvent call that obtained it began, or when a clearEvents call overlapping the observation could have discarded it'])
_WT = ('EventQueue, instrumented Threading policy (wait/wait_for are the standard predicate loops over the policy condition variable; no spurious wake-ups so a lost wake-up cannot be masked); %s; enqueuer script chosen from '
       '{plain enqueue, enqueue inside a DisableQueueNotify scope, inside two nested scopes, empty scope then enqueue, two enqueues inside one scope}%s; timeouts of waitFor fire at any scheduling point; at most P=%d preemptions')
PROPS['C07'] = Prop(
    quick=[Run('q_wait_1w_p3', 'q_threads.cpp', {'MODE': 7, 'TT': 2}, preempt=3, covers=8, optional_covers=(0, 1, 2, 3, 4), mt=True, bounds=_WT % ('1 waiter (wait or waitFor, then process)', '', 3)),
           Run('q_wait_1w_scope_p2', 'q_threads.cpp', {'MODE': 7, 'TT': 2, 'SCOPE_THREAD': None}, preempt=2, covers=8, optional_covers=(0, 1, 2, 3, 4), mt=True, bounds=_WT % ('1 waiter', ' + optionally a third thread that opens and closes a DisableQueueNotify scope', 2)),
           Run('hq_wait_1w_p2', 'q_threads.cpp', {'MODE': 7, 'TT': 2, 'HETER': None}, preempt=2, covers=8, optional_covers=(0, 1, 2, 3, 4, 5, 6, 7), mt=True, native=(), bounds=_NOREP + 'HeterEventQueue: ' + _WT % ('1 waiter (wait or waitFor, then process)', '', 2)),
           Run('q_wait_1w_proc_p1', 'q_threads.cpp', {'MODE': 7, 'TT': 2, 'PROC_THREAD': None}, preempt=1, covers=8, optional_covers=(0, 1, 2, 3, 4, 5, 6, 7), mt=True, bounds=_WT % ('1 waiter', ' + a thread running processIf or processUntil on 1..2 events pending at the start (it takes them out, dispatches some, puts the rest back)', 1))]
           + [Run('q_wait_2w_p2', 'q_threads.cpp', {'MODE': 7, 'TT': 3}, preempt=2, covers=8, optional_covers=(0, 1, 2, 3, 4), mt=True, bounds=_WT % ('1 or 2 waiters (an enqueue made while one woken consumer is inside process() must still wake the other; a waitFor that times out while no DisableQueueNotify object exists leaves no earlier event unconsumed)', '', 2))],
    thorough=[Run('q_wait_1w_proc_p2', 'q_threads.cpp', {'MODE': 7, 'TT': 2, 'PROC_THREAD': None}, preempt=2, covers=8, optional_covers=(0, 1, 2, 3, 4, 5, 6, 7), mt=True, budget_s=1700, bounds=_WT % ('1 waiter', ' + a thread running processIf or processUntil on 1..2 events pending at the start', 2)),
              Run('hq_wait_1w_p3', 'q_threads.cpp', {'MODE': 7, 'TT': 2, 'HETER': None}, preempt=3, covers=8, optional_covers=(0, 1, 2, 3, 4, 5, 6, 7), mt=True, native=(), budget_s=1700, bounds=_NOREP + 'HeterEventQueue: ' + _WT % ('1 waiter', '', 3)),
              Run('q_wait_2w_p3', 'q_threads.cpp', {'MODE': 7, 'TT': 3}, preempt=3, covers=8, optional_covers=(0, 1, 2, 3, 4), mt=True, budget_s=1700, bounds=_WT % ('1 or 2 waiters', '', 3)),
              Run('q_wait_1w_scope_p3', 'q_threads.cpp', {'MODE': 7, 'TT': 2, 'SCOPE_THREAD': None}, preempt=3, covers=8, optional_covers=(0, 1, 2, 3, 4), mt=True, budget_s=1700, bounds=_WT % ('1 waiter', ' + optional scope-only thread', 3)),
              Run('q_wait_1w_auto_p2', 'q_threads.cpp', {'MODE': 7, 'TT': 2}, preempt=2, covers=8, optional_covers=(0, 1, 2, 3, 4), mt=True, shared_points=True, native=(), budget_s=1700, bounds=_WT % ('1 waiter', '; automatic scheduling points on shared plain accesses', 2))],
    outside='spurious wake-ups (deliberately excluded); real time (timeouts are a nondeterministic stub); more than 2 waiters; std::condition_variable itself (the policy type stands in for it)',
    assumptions=['liveness is checked as safety on terminal states: a state in which no thread can run, a waiter is parked, events are pending and the notify counter is 0 is a lost wake-up'])

_FT = ('%s (lowered with -fexceptions); state reached fault-free, then ONE operation runs with fault injection enabled: every operator new, every callback/listener/predicate body and every copy/move of the tracked callback and payload types '
       'is a fault point and the engine forks "throws / does not throw" at each of them (F=%d fault(s) per path); afterwards the object is observed, used again and destroyed; ledger + engine heap accounting')
def _ft(name, cls, what, f=1, defs=None, **kw):
    # native replay with clang -O1 builds only: the number of fault points on a path (copy/move constructor calls, and operator new calls that LLVM may elide at -O1) depends on front end and optimisation level
    d = {'CLASS': cls}; d.update(defs or {})
    return Run(name, 'faults.cpp', d, exc=True, own_new=True, faults=f, covers=6, native=('clang-O1-san', 'clang-O1'), bounds=_FT % (what, f), **kw)
_FTAD = Run('faults_anydata', 'faults.cpp', {'CLASS': 4}, exc=True, own_new=True, faults=1, covers=6, optional_covers=(1, 3, 5), native=('clang-O1-san', 'clang-O1'),
            bounds='AnyData<32> built from and moved with a tracked value whose copy / move constructor throws, or whose heap block cannot be allocated (F=1): inline-sized and larger-than-inline value; value symbolic')
PROPS['C17'].quick.append(Run('anydata_string', 'anydata_string.cpp', {}, covers=3, bounds='AnyData<64> (inline) and AnyData<1> (beyond the inline capacity) holding a std::string of 5, 15 (both inside the string object: self-referential) or 40 characters (heap block) of a symbolic character: copy in, original destroyed, holder moved and the old holder freed, optionally moved into a queued event and read by a listener; the engine flags any read of freed storage'))
PROPS['C17'].quick.append(_FTAD)      # (C17's thorough list is its quick list)
_FTTH = [Run('faults_cl_threads_p3', 'cl_threads_fault.cpp', {'DISP': 0}, exc=True, faults=1, preempt=3, covers=2, mt=True, native=(), bounds='C09 x C03: CallbackList, instrumented policy; thread 1 appends / prepends a callback whose copy constructor may throw (F=1: any one of its copies), thread 2 appends concurrently; every schedule with P<=3 preemptions at the mutex / atomic hooks; the next invocation calls exactly the successfully added callbacks once each, and so does the one after a further addition (engine verdict only: no native replay of fault + thread schedules)'),
         Run('faults_disp_threads_p2', 'cl_threads_fault.cpp', {'DISP': 1}, exc=True, faults=1, preempt=2, covers=2, mt=True, native=(), bounds='the same through EventDispatcher::appendListener / prependListener / dispatch, P<=2')]
_FTOQ = Run('faults_ordered_queue', 'faults.cpp', {'CLASS': 5}, exc=True, own_new=True, faults=1, covers=6, optional_covers=(1, 2, 3, 5), native=('clang-O1-san', 'clang-O1'),
            bounds='EventQueue with the OrderedQueueList policy, default comparator, user Event type whose copies and operator< can throw (F=1), std::map: enqueue of a third-key event into a queue holding 0..2 events with keys out of order; a failed enqueue leaves exactly the previous events, in order')
PROPS['C09'] = Prop(
    quick=_FTTH + [_FTOQ, _FTAD, _ft('faults_cl', 0, 'CallbackList with 1..3 callbacks: append / invoke / copy-construct / copy-assign / move-assign+swap', optional_covers=(3,)),
           _ft('faults_queue', 1, 'EventQueue with 0..3 pending events and a recycled slot: enqueue / process / processOne / processIf / peekEvent / takeEvent', optional_covers=(5,)),
           _ft('faults_disp', 2, 'EventDispatcher: append/prepend/insertListener (existing and new event), via ScopedRemover / CounterRemover / ConditionalRemover, dispatch, copy', optional_covers=(3, 5)),
           _ft('faults_hqueue', 1, 'HeterEventQueue (type-erased slots) with 0..3 pending events and a recycled slot: enqueue / process / processOne / processIf', defs={'HETERQ': None}, optional_covers=(5,)),
           _ft('faults_disp_fkey', 2, 'EventDispatcher with a user Event type whose copies and comparisons can throw (std::map): the same operations', defs={'FKEY': None}, optional_covers=(0, 1, 2, 3, 5)),
           _ft('faults_hcl', 3, 'HeterCallbackList: append / invoke / copy-construct / copy-assign / move-assign+swap', optional_covers=(3,))],
    thorough=[_ft('faults_cl_f2', 0, 'CallbackList', 2, optional_covers=(3,), budget_s=1700), _ft('faults_queue_f2', 1, 'EventQueue', 2, optional_covers=(5,), budget_s=1700),
              _ft('faults_disp_f2', 2, 'EventDispatcher + removers', 2, optional_covers=(3, 5), budget_s=1700), _ft('faults_hcl_f2', 3, 'HeterCallbackList', 2, optional_covers=(3,), budget_s=1700)],
    outside='more than F faults per path; faults in more than one operation of a history; HeterEventQueue/HeterEventDispatcher under faults; exceptions thrown by key comparison',
    assumptions=['operator new is replaced in the harness TU so that allocation failure is a fault point (also inside libstdc++: make_shared, list nodes, vector growth, std::function storage)',
                 'two-phase unwinding is reduced to: pop frames to the nearest invoke, enter its landing pad, match catch clauses by type-info identity'])

_C8 = 'tracked build (every construction/destruction of callback and payload objects is counted; use after destruction and double destruction are flagged through a magic word; the engine accounts every heap object and reports leaks at the end): '
PROPS['C08'] = Prop(
    quick=[Run('c8_cl_history_k3', 'cl_history.cpp', {'KK': 3, 'TRACKED': None}, covers=8, optional_covers=(3, 4), bounds=_C8 + 'C01 histories, K=3; after every step the live callback instances equal the model'),
           Run('c8_cl_nested_a2', 'cl_nested.cpp', {'N0': 3, 'AA': 2, 'DD': 2, 'TRACKED': None}, covers=6, optional_covers=(5,), bounds=_C8 + 'C02 nested programs, 3 callbacks, A=2: a removed callback is released once no invocation that was running is in progress'),
           Run('c8_q_history_byvalue_k3', 'q_history.cpp', {'KK': 3, 'RA': 1, 'PAYLOAD': 1}, covers=11, optional_covers=(11, 12), bounds=_C8 + 'C05 histories, K=3, RA=1, payload by value: exactly the pending events own live payloads; clearEvents releases before returning; recycled slots'),
           Run('c8_q_history_byref_k3', 'q_history.cpp', {'KK': 3, 'RA': 0, 'PAYLOAD': 2}, covers=11, optional_covers=(11, 12, 4, 5), bounds=_C8 + 'C05 histories, K=3, payload by const reference'),
           Run('c8_heter_queue_k2', 'heter.cpp', {'OBJ': 2, 'KK': 2}, covers=9, optional_covers=(1, 2, 3, 4, 5, 6, 7, 8), bounds=_C8 + 'C14 heterogeneous queue, K=2: slots recycled between prototypes of different types'),
           Run('c8_copymove_cl_k3', 'copymove.cpp', {'KK': 3, 'OBJ': 0, 'TRACKED': None}, covers=11, optional_covers=(8, 9, 10), bounds=_C8 + 'C10 histories of CallbackList copies/moves/swaps, K=3: the live callback instances are exactly the listeners of the live objects after every step'),
           Run('c8_copymove_queue_k2', 'copymove.cpp', {'KK': 2, 'OBJ': 2, 'TRACKED': None}, covers=11, optional_covers=(7, 8, 9, 10), bounds=_C8 + 'C10 histories of EventQueue copies/moves/swaps, K=2'),
           _ft('c8_faults_queue', 1, 'EventQueue (exceptions): a throwing listener/predicate/copy/allocation never leaks or double-destroys a payload', optional_covers=(5,)),
           _ft('c8_faults_hqueue', 1, 'HeterEventQueue (exceptions): the same for its type-erased slots', defs={'HETERQ': None}, optional_covers=(5,)),
           _ft('c8_faults_cl', 0, 'CallbackList (exceptions): failed copies and additions release every callback copy', optional_covers=(3,)),
           Run('c8_cl_threads_s1_p2', 'cl_threads.cpp', {'TT': 2, 'SS': 1}, preempt=2, covers=4, optional_covers=(2,), mt=True, bounds=_C8 + 'C03 two-thread schedules (S=1, P=2): no node or callback is leaked (shared_ptr cycle) under any interleaving')],
    thorough=[Run('c8_cl_history_k4', 'cl_history.cpp', {'KK': 4, 'TRACKED': None}, covers=8, budget_s=1700, bounds=_C8 + 'C01 histories, K=4'),
              Run('c8_cl_nested_a3', 'cl_nested.cpp', {'N0': 3, 'AA': 3, 'DD': 2, 'TRACKED': None}, covers=6, budget_s=1700, bounds=_C8 + 'C02 nested programs, A=3'),
              Run('c8_q_history_byvalue_k4', 'q_history.cpp', {'KK': 4, 'RA': 1, 'PAYLOAD': 1}, covers=11, optional_covers=(11, 12), budget_s=1700, bounds=_C8 + 'C05 histories K=4 by value'),
              Run('c8_q_history_moveonly_k4', 'q_history.cpp', {'KK': 4, 'RA': 1, 'PAYLOAD': 3}, covers=11, optional_covers=(11, 12, 7), budget_s=1700, bounds=_C8 + 'C05 histories K=4 move-only'),
              Run('c8_heter_queue_k3', 'heter.cpp', {'OBJ': 2, 'KK': 3}, covers=9, budget_s=1700, bounds=_C8 + 'C14 heterogeneous queue, K=3'),
              _ft('c8_faults_queue_f2', 1, 'EventQueue (exceptions)', 2, optional_covers=(5,), budget_s=1700), _ft('c8_faults_cl_f2', 0, 'CallbackList (exceptions)', 2, optional_covers=(3,), budget_s=1700),
              Run('c8_cl_threads_s2_p1', 'cl_threads.cpp', {'TT': 2, 'SS': 2, 'OPSET': 1}, preempt=1, covers=4, mt=True, budget_s=1700, bounds=_C8 + 'C03 two-thread schedules S=2, P=1')],
    outside='the bounds of the underlying harnesses (C01, C02, C05, C14, C09, C03); copies/moves/swaps of whole containers are covered by the engine heap accounting in C10, not by a tracked build',
    assumptions=['not a separate exploration: the same harnesses as C01/C02/C05/C14/C09/C03 built with counted callback and payload types'])

_ST = 'eventpp::SingleThreading'; _MT = 'eventpp::MultipleThreading'; _SL = 'eventpp::GeneralThreading<eventpp::SpinLock>'
def _cfg(name, harness, defines, std, opt, what, covers, oc=(), gnuc='10.0.0', **kw):
    return Run(name, harness, defines, std=std, opt=opt, covers=covers, optional_covers=oc, gnuc=gnuc,
               bounds='configuration cell: %s; -std=%s; clang IR at -%s%s; same reference model as the underlying property' % (what, std, opt or 'O1', '' if gnuc else '; clang default __GNUC__=4 (selects the GCC4 patch version of CallbackList::operator())'), **kw)
_C20Q = [
    _cfg('c20_cl_single_func_cxx11_O0', 'cl_history.cpp', {'KK': 3, 'THREADING': _ST, 'CBFUNC': None, 'HAVOC': None}, 'c++11', 'O0', 'C01 K=3, SingleThreading, std::function callbacks, storage pre-filled with arbitrary bytes', 8, (3, 4, 5, 7)),
    _cfg('c20_cl_multi_pod_cxx14_O2', 'cl_history.cpp', {'KK': 3, 'THREADING': _MT, 'HAVOC': None}, 'c++14', 'O2', 'C01 K=3, MultipleThreading (std::mutex/std::atomic via the engine pthread models), POD functor callbacks, pre-filled storage', 8, (3, 4)),
    _cfg('c20_cl_spin_pod_cxx20_O1', 'cl_history.cpp', {'KK': 3, 'THREADING': _SL}, 'c++20', None, 'C01 K=3, GeneralThreading<SpinLock> (real SpinLock on IR atomics)', 8, (3, 4)),
    _cfg('c20_cl_gnuc4_cxx17_O1', 'cl_history.cpp', {'KK': 3}, 'c++17', None, 'C01 K=3, instrumented mutex', 8, (3, 4), gnuc=None),
    _cfg('c20_nested_gnuc4_cxx17', 'cl_nested.cpp', {'N0': 3, 'AA': 2, 'DD': 2}, 'c++17', None, 'C02 A=2, instrumented mutex', 6, (5,), gnuc=None),
    _cfg('c20_q_multi_cxx11_O1', 'q_history.cpp', {'KK': 3, 'RA': 0, 'PAYLOAD': 0, 'THREADING': _MT, 'HAVOC': None}, 'c++11', None, 'C05 K=3, MultipleThreading, pre-filled storage', 11, (11, 12, 4, 5)),
    _cfg('c20_q_single_cxx20_O2', 'q_history.cpp', {'KK': 3, 'RA': 0, 'PAYLOAD': 1, 'THREADING': _ST, 'HAVOC': None}, 'c++20', 'O2', 'C05 K=3, SingleThreading, tracked payload by value, pre-filled storage', 11, (11, 12, 4, 5)),
    _cfg('c20_q_spin_cxx14_O0', 'q_history.cpp', {'KK': 3, 'RA': 1, 'PAYLOAD': 0, 'THREADING': _SL}, 'c++14', 'O0', 'C05 K=3 RA=1, GeneralThreading<SpinLock>', 11, (11, 12)),
    _cfg('c20_routing_movekey_hash_cxx11', 'disp_routing.cpp', {'CFG': 2, 'MAPK': 0}, 'c++11', None, 'C04 MoveKey by value, default (hashed) map', 6, native=('gxx-O0-san', 'gxx-O2', 'clang-O1')),
    _cfg('c20_routing_int_hash_cxx20_O2', 'disp_routing.cpp', {'CFG': 0, 'MAPK': 2}, 'c++20', 'O2', 'C04 int key, unordered_map', 6, native=('gxx-O0-san', 'gxx-O2', 'clang-O1')),
    _cfg('c20_routing_int_gnuc4_cxx17', 'disp_routing.cpp', {'CFG': 0, 'MAPK': 1}, 'c++17', None, 'C04 int key, by-value payload, two listeners per key (one consumes its copy), std::map', 6, gnuc=None, native=('gxx-O0-san', 'gxx-O2', 'clang-O1')),
    _cfg('c20_heter_include_queue_cxx20_O2', 'heter_include.cpp', {'OBJ': 2}, 'c++20', 'O2', 'C14 include-event heterogeneous queue, move-sensitive key (implicit-move rules differ between -std levels and compilers)', 6, native=('gxx-O0-san', 'gxx-O2', 'clang-O1')),
    _cfg('c20_heter_include_disp_cxx11_O0', 'heter_include.cpp', {'OBJ': 1}, 'c++11', 'O0', 'C14 include-event heterogeneous dispatcher, move-sensitive key', 6, native=('gxx-O0-san', 'gxx-O2', 'clang-O1')),
    _cfg('c20_routing_policy_map_cxx14_O0', 'disp_routing.cpp', {'CFG': 3, 'MAPK': 1}, 'c++14', 'O0', 'C04 getEvent policy, std::map', 6, native=('gxx-O0-san', 'gxx-O2', 'clang-O1')),
    _cfg('c20_routing_movekey_queue_cxx14', 'disp_routing.cpp', {'CFG': 2, 'MAPK': 1, 'VIAQUEUE': None}, 'c++14', None, 'C04 through an EventQueue (enqueue + process), MoveKey by value, std::map', 6, native=('gxx-O0-san', 'gxx-O2', 'clang-O1')),
    _cfg('c20_routing_policy_queue_cxx11', 'disp_routing.cpp', {'CFG': 3, 'MAPK': 0, 'VIAQUEUE': None}, 'c++11', 'O2', 'C04 through an EventQueue, getEvent policy, default map', 6, native=('gxx-O0-san', 'gxx-O2', 'clang-O1')),
    _cfg('c20_copymove_queue_single_cxx11', 'copymove.cpp', {'KK': 2, 'OBJ': 2, 'THREADING': _ST}, 'c++11', None, 'C10 EventQueue K=2, SingleThreading (its Atomic has no initialising default constructor), pre-filled storage', 11, (7, 8, 9, 10)),
    _cfg('c20_copymove_queue_multi_cxx17', 'copymove.cpp', {'KK': 2, 'OBJ': 2, 'THREADING': _MT}, 'c++17', None, 'C10 EventQueue K=2, MultipleThreading (std::atomic default constructor leaves the value indeterminate before C++20), pre-filled storage', 11, (7, 8, 9, 10)),
    _cfg('c20_copymove_hqueue_multi_cxx20', 'copymove.cpp', {'KK': 2, 'OBJ': 5, 'THREADING': _MT}, 'c++20', 'O2', 'C10 HeterEventQueue K=2, MultipleThreading', 11, (7, 8, 9, 10)),
]
_C20LK = [_lk('c20_spinlock_t2_r2_p4', 0, 2, 2, 4, 'eventpp::SpinLock (real code)'), _lk('c20_stdmutex_t2_r2_p4', 1, 2, 2, 4, 'std::mutex (engine model of pthread_mutex_*): the same oracle, so both Mutex choices of the multi-threaded policy give mutual exclusion')]
PROPS['C20'] = Prop(
    quick=_C20Q + _C20LK,
    thorough=_C20Q + [
    _cfg('c20_cl_multi_func_cxx20_O2', 'cl_history.cpp', {'KK': 4, 'THREADING': _MT, 'CBFUNC': None, 'HAVOC': None}, 'c++20', 'O2', 'C01 K=4, MultipleThreading, std::function', 8, (3, 4, 5, 7), budget_s=1700),
    _cfg('c20_cl_single_pod_cxx14_O1', 'cl_history.cpp', {'KK': 4, 'THREADING': _ST, 'HAVOC': None}, 'c++14', None, 'C01 K=4, SingleThreading', 8, (3, 4), budget_s=1700),
    _cfg('c20_cl_spin_func_cxx11_O0', 'cl_history.cpp', {'KK': 3, 'THREADING': _SL, 'CBFUNC': None}, 'c++11', 'O0', 'C01 K=3, SpinLock, std::function', 8, (3, 4, 5, 7), budget_s=1700),
    _cfg('c20_nested_multi_cxx11', 'cl_nested.cpp', {'N0': 3, 'AA': 3, 'DD': 2, 'THREADING': 'VMutexOnlyThreading'}, 'c++11', 'O2', 'C02 A=3 at c++11/O2', 6, budget_s=1700),
    _cfg('c20_q_multi_cxx20_O2', 'q_history.cpp', {'KK': 4, 'RA': 1, 'PAYLOAD': 0, 'THREADING': _MT, 'HAVOC': None}, 'c++20', 'O2', 'C05 K=4 RA=1, MultipleThreading', 11, (11, 12), budget_s=1700),
    _cfg('c20_q_single_cxx11_O0', 'q_history.cpp', {'KK': 4, 'RA': 1, 'PAYLOAD': 2, 'THREADING': _ST, 'HAVOC': None}, 'c++11', 'O0', 'C05 K=4 RA=1, SingleThreading, payload by reference', 11, (11, 12), budget_s=1700),
    ] + [_cfg('c20_routing_cfg%d_map%d_%s' % (c, m_, sd.replace('+', 'x')), 'disp_routing.cpp', {'CFG': c, 'MAPK': m_}, sd, o, 'C04 configuration %d, map kind %d' % (c, m_), 6, native=('gxx-O0-san', 'gxx-O2', 'clang-O1'))
         for (c, m_, sd, o) in [(0, 0, 'c++11', 'O2'), (1, 1, 'c++14', None), (1, 2, 'c++20', 'O0'), (4, 0, 'c++11', None), (5, 2, 'c++14', 'O2'), (7, 1, 'c++20', None), (2, 2, 'c++17', 'O0'), (3, 0, 'c++20', 'O2')]] + [
    _cfg('c20_copymove_cl_single_cxx14', 'copymove.cpp', {'KK': 3, 'OBJ': 0, 'THREADING': _ST}, 'c++14', 'O2', 'C10 CallbackList K=3 SingleThreading', 11, (8, 9, 10), budget_s=1700),
    _cfg('c20_copymove_disp_multi_cxx11', 'copymove.cpp', {'KK': 3, 'OBJ': 1, 'THREADING': _MT}, 'c++11', None, 'C10 EventDispatcher K=3 MultipleThreading', 11, (8, 9, 10), budget_s=1700),
    _cfg('c20_copymove_queue_spin_cxx20', 'copymove.cpp', {'KK': 3, 'OBJ': 2, 'THREADING': _SL}, 'c++20', 'O2', 'C10 EventQueue K=3 SpinLock', 11, (9, 10), budget_s=1700)],
    outside='(a) solver-decided: only the listed cells of Threading x Map x Callback x ArgumentPassing x -std x clang optimisation level (quick: a covering subset; thorough: more cells, not the full product). '
            '(b) NOT solver-decided: other compilers. g++ 12 (-O0, -O2) and clang++ 14 are reached only by native replay of the witness paths of every run, comparing observation traces; "any conforming compiler" is beyond what can be encoded with the tools present',
    assumptions=['every cell is checked against the same reference model as its underlying property, hence all cells agree with each other',
                 'object storage is pre-filled with symbolic bytes (vf_havoc) before construction in the cells marked so: a result depending on prior memory is found by the solver'])
PROPS['C20'].note = 'The compiler dimension (g++ vs clang++, unspecified evaluation order) is covered by witness replay on native g++/clang++ builds, not by a solver verdict.'

# ---- thorough-tier counterparts of the runs added in the last session (deeper bounds of the same harness modes; quick lists untouched)
def _more(pid, runs): PROPS[pid].thorough = list(PROPS[pid].thorough) + runs
_more('C03', [Run('spinlock_callbacklist_t2_r3_p3', 'spinlock.cpp', {'LOCKKIND': 2, 'TT': 2, 'RR': 3}, preempt=3, covers=2, mt=True, native=(), linetables=True, budget_s=1700, bounds='CallbackList under GeneralThreading<SpinLock>: 2 threads x (3 appends + remove of the first), P<=3'),
              _lk('spinlock_t3_r2_p4', 0, 3, 2, 4, 'eventpp::SpinLock (real code)', budget_s=1700)])
_more('C05', [Run('q_history_dtor_enqueue_k3', 'q_history.cpp', {'KK': 3, 'RA': 0, 'PAYLOAD': 1, 'INIT_MAX': 2, 'DTORENQ': None}, covers=14, optional_covers=(0, 1, 2, 3, 4, 5, 6, 7, 8, 9, 10, 11, 12), budget_s=1700,
                  bounds='argument type whose destructor enqueues into the same queue: K=3 steps from every quiescent state with <= 2 pending events and <= 2 recycled slots')])
_more('C06', _LKQUEUE + [_DTORQ, Run('spinlock_queue_t3_r2_p3', 'spinlock.cpp', {'LOCKKIND': 3, 'TT': 3, 'RR': 2}, preempt=3, covers=2, mt=True, native=(), linetables=True, budget_s=1700, bounds='EventQueue under GeneralThreading<SpinLock>: 2 producers x 2 enqueues + 1 consumer, P<=3')])
_more('C09', _FTTH + [_FTOQ, _FTAD,
              Run('faults_anydata_f2', 'faults.cpp', {'CLASS': 4}, exc=True, own_new=True, faults=2, covers=6, optional_covers=(1, 3, 5), native=('clang-O1-san', 'clang-O1'), budget_s=1700, bounds='AnyData under faults, F=2 (a failed copy, then a failed move)'),
              Run('faults_ordered_queue_f2', 'faults.cpp', {'CLASS': 5}, exc=True, own_new=True, faults=2, covers=6, optional_covers=(1, 2, 3, 5), native=('clang-O1-san', 'clang-O1'), budget_s=1700, bounds='ordered queue with a throwing Event comparison, F=2'),
              Run('faults_cl_threads_p5', 'cl_threads_fault.cpp', {'DISP': 0}, exc=True, faults=1, preempt=5, covers=2, mt=True, native=(), budget_s=1700, bounds='C09 x C03 on a CallbackList, P<=5'),
              Run('faults_disp_threads_p4', 'cl_threads_fault.cpp', {'DISP': 1}, exc=True, faults=1, preempt=4, covers=2, mt=True, native=(), budget_s=1700, bounds='C09 x C03 through an EventDispatcher, P<=4')])
_more('C10', [Run('copymove_disp_filters_k3', 'copymove.cpp', {'KK': 3, 'OBJ': 1, 'FILTERS': None}, covers=12, optional_covers=(8, 9, 10), budget_s=1700, bounds='EventDispatcher with MixinFilter, K=3 (see quick)'),
              Run('copymove_queue_filters_k3', 'copymove.cpp', {'KK': 3, 'OBJ': 2, 'FILTERS': None}, covers=12, optional_covers=(8,), budget_s=1700, bounds='EventQueue with MixinFilter, K=3 (see quick)')])
_more('C02', [Run('cl_nested_%s_a3' % tag, 'cl_nested.cpp', dict({'N0': 3, 'AA': 3, 'DD': 2, 'THREADING': thr}, **extra), covers=6, optional_covers=(5,), native=(), budget_s=1700,
                  bounds='the nested programs (3 callbacks, A=3, depth <= 2) under %s' % what)
              for (tag, thr, extra, what) in [('anycounter', 'VMutexOnlyThreading', {'ANYC': None}, 'the instrumented policy on a list with a symbolic addition history (1 <= c0 <= 2^32 - 65)'),
                                              ('stdmutex', 'eventpp::MultipleThreading', {}, 'MultipleThreading (std::mutex via the pthread model)'),
                                              ('spinlock', 'eventpp::GeneralThreading<eventpp::SpinLock>', {}, 'GeneralThreading<SpinLock>'),
                                              ('single', 'eventpp::SingleThreading', {}, 'SingleThreading')]])
_more('C03', [Run('cl_threads_s1_wrap_hooks_p3', 'cl_threads.cpp', {'TT': 2, 'SS': 1, 'WRAPC': None}, preempt=3, covers=4, optional_covers=(0, 1, 2, 3), mt=True, budget_s=1700, bounds=_TH % ('CallbackList whose generation counter is 0..1 additions before its wrap (C03 x C19)', 'instrumented policy', 2, 1, 3, _SP_HOOKS))])
_more('C16', [_rm('cond_mask_cl_t', 0, 5, 4, 2, 'CallbackList', budget_s=1700), _rm('cond_mask_disp_t', 1, 5, 4, 2, 'EventDispatcher', budget_s=1700)])
_more('C11', [_DQNV])
_C11ST = [Run('q_listener_empty_%s' % tag, 'q_history.cpp', {'KK': 2, 'RA': 1, 'PAYLOAD': 0, 'THREADING': thr}, covers=11, optional_covers=(0, 1, 2, 3, 4, 5, 6, 7, 8, 9, 10, 11, 12),
              bounds='"the queue is seen as non-empty from inside a listener that process or processOne is running" under %s: C05 histories K=2, RA=1; every listener and predicate call also asks emptyQueue() (must be false while its own event is in dispatch)' % what)
          for (tag, thr, what) in [('single', _ST, 'SingleThreading (plain counters, no locks)'), ('spin', _SL, 'GeneralThreading<SpinLock>')]]
PROPS['C11'].quick = list(PROPS['C11'].quick) + _C11ST; _more('C11', _C11ST)
_W2 = [r for r in PROPS['C07'].quick if r.name == 'q_wait_2w_p2']      # carries the C11 clause 'waitFor times out while no DisableQueueNotify object exists' (assertion 357)
PROPS['C11'].quick = list(PROPS['C11'].quick) + _W2; _more('C11', _W2); _more('C07', _W2)
_more('C12', [r for r in PROPS['C12'].quick if r.name.startswith('argument_adapter_')])
_more('C15', [Run('scoped_disp_equiv_k3', 'scoped.cpp', {'KK': 3, 'TK': 1, 'EQUIV': None}, covers=8, optional_covers=(0, 1, 2, 3, 4, 5, 6, 7), budget_s=1700, bounds=_SR_BOUNDS % ('EventDispatcher with a Map policy whose key equivalence is coarser than operator== of the event type', 3))])
_more('C16', [r for r in PROPS['C16'].quick if r.name == 'counter_under_faults'])
_more('C20', _C20LK)

HOOK_COMMITS = []
EBMC_PROPS = ['C12', 'C16', 'C18']
