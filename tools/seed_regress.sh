#!/bin/bash
# tools/seed_regress.sh [seed names...]   -- regression of the stored seeded changes WITHOUT touching /repo:
# each patch is applied to a scratch worktree of /repo HEAD (under $SCRATCH, removed afterwards) and the quick check of the target property
# (plus the neighbours named in meta.json "also") is run with VERIF_REPO pointing there; evidence/replays go to the scratch dir.
# Prints one line per seed: CAUGHT <name> by <id> | MISSED <name>.  env: JOBS (parallel seeds, default 2), J (cores per check, default 8)
cd /verif || exit 2
SCRATCH=${SCRATCH:-/tmp/seedreg}; mkdir -p "$SCRATCH"
[ $# -gt 0 ] && NAMES="$*" || NAMES=$(ls seeded)
one() {
  n=$1; d=$SCRATCH/$n; rm -rf "$d"; git -C /repo worktree prune
  git -C /repo worktree add -q --detach "$d/wt" HEAD 2>/dev/null || { echo "ERROR $n worktree"; return; }
  if ! git -C "$d/wt" apply /verif/seeded/$n/patch.diff 2>/dev/null && ! git -C "$d/wt" apply -3 /verif/seeded/$n/patch.diff 2>/dev/null; then echo "PATCH-DOES-NOT-APPLY $n"; git -C /repo worktree remove --force "$d/wt"; rm -rf "$d"; return; fi
  if python3 -c "import json,sys; sys.exit(0 if json.load(open('/verif/seeded/$n/meta.json')).get('outside_given_properties') else 1)"; then echo "OUTSIDE $n (violates no given property as quantified; not checked by decision)"; git -C /repo worktree remove --force "$d/wt"; rm -rf "$d"; return; fi
  ids=$(python3 -c "import json,sys; m=json.load(open('/verif/seeded/$n/meta.json')); print(' '.join([m['property']]+m.get('also',[])))")
  res="MISSED $n (ran: $ids)"
  for id in $ids; do
    out=$(VERIF_REPO=$d/wt VERIF_OUT=$d/out ./check $id -j ${J:-8} 2>&1); rc=$?
    if [ $rc = 1 ] && echo "$out" | grep -q "^VIOLATION property=$id"; then res="CAUGHT $n by $id: $(echo "$out" | grep -m1 '^  run=' | cut -c1-160)"; break; fi
    [ $rc = 2 ] && res="INCONCLUSIVE $n in $id: $(echo "$out" | grep -m1 '^PROBLEM' | cut -c1-200)"
  done
  echo "$res"
  git -C /repo worktree remove --force "$d/wt"; rm -rf "$d"
}
for n in $NAMES; do
  one $n &
  while [ $(jobs -r | wc -l) -ge ${JOBS:-2} ]; do sleep 1; done
done
wait
