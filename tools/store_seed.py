#!/usr/bin/env python3
"""tools/store_seed.py <name> <property> <srcdir> <patchfile> <needs> <detected_by>  -- copies a confirmed seeded change into /verif/seeded/<name>/"""
import sys, os, shutil, json, re
name, prop, src, patch, needs, detected = sys.argv[1:7]
d = os.path.join('/verif/seeded', name); os.makedirs(d, exist_ok=True)
shutil.copy(os.path.join(src, patch), os.path.join(d, 'patch.diff'))
shutil.copy(os.path.join(src, 'demo.cpp'), os.path.join(d, 'demo.cpp'))
if os.path.exists(os.path.join(src, 'notes.md')): shutil.copy(os.path.join(src, 'notes.md'), os.path.join(d, 'notes.md'))
confirm = ''
for log in sorted(os.listdir('/tmp/w')):
    if log.startswith('verify_seeds'):
        for l in open(os.path.join('/tmp/w', log)):
            if l.startswith('SEED %s:' % name): confirm = l.strip()
meta = {'property': prop, 'breaks': prop, 'needs_to_manifest': needs,
        'origin': 'written by an independent sub-agent that saw only the property text and a scratch worktree of /repo' + (' (patch ported by hand onto the tree after the fix: commits, same defect)' if 'ported' in patch else ''),
        'confirmed_by_me': {'how': 'tools/verify_seed.sh in a scratch worktree of /repo HEAD: demo exits 0 on the clean tree, patch applies, repo unit tests pass with it, demo exits non-zero with it', 'result': confirm},
        'checks_run': 'tools/seedtest.sh <patch> <check ids> (git apply to /repo working tree, ./check <id> --tier quick, git checkout -- .)',
        'detected_by': detected}
json.dump(meta, open(os.path.join(d, 'meta.json'), 'w'), indent=1)
print('stored', d)
