// E-bmc leaf kernels for C12: the real ConditionalFunctor::operator() and ArgumentAdapter::operator() (non-shared_ptr specialisation),
// wrapped so that the lowered IR has no heap: conditions and listeners are plain functors writing to caller-provided cells.
#include <eventpp/utilities/conditionalfunctor.h>
#include <eventpp/utilities/argumentadapter.h>
#include <stdint.h>
struct Out { uint32_t called; uint32_t a; uint32_t b; uint32_t condCalls; };
struct Cond { uint32_t mask, want; Out * o; bool operator()(uint32_t a, uint32_t) const { o->condCalls++; return (a & mask) == want; } };
struct Lis { Out * o; void operator()(uint32_t a, uint32_t b) const { o->called++; o->a = a; o->b = b; } };
struct Narrow { Out * o; void operator()(int32_t a, uint16_t b) const { o->called++; o->a = (uint32_t)a; o->b = b; } };
extern "C" {
// returns called | condCalls << 8 ; the arguments the listener saw go to *ra, *rb
__attribute__((noinline)) uint32_t k_conditional(uint32_t a, uint32_t b, uint32_t mask, uint32_t want, uint32_t * ra, uint32_t * rb)
{
	Out o{0, 0, 0, 0};
	auto f = eventpp::conditionalFunctor(Lis{&o}, Cond{mask, want, &o});
	f(a, b);
	*ra = o.a; *rb = o.b;
	return o.called | (o.condCalls << 8);
}
__attribute__((noinline)) uint32_t k_adapter(int64_t a, uint32_t b, uint32_t * ra, uint32_t * rb)
{
	Out o{0, 0, 0, 0};
	auto f = eventpp::argumentAdapter<void(int32_t, uint16_t)>(Narrow{&o});
	f(a, b);
	*ra = o.a; *rb = o.b;
	return o.called;
}
}
