// heter_valcat.cpp -- C14: "an invocation, dispatch or enqueue selects the first listed prototype callable with its argument TYPES" -- the value
// category of an argument is part of its type: with prototypes  P0 void(Big &)  P1 void(Big)  P2 void(uint32_t, const Big &)
// a modifiable lvalue selects P0; a const lvalue, a temporary and an xvalue (std::move) select P1 (P0 is not callable with them).
// The P1 callbacks take Big && so that they are NOT callable with P0's argument (a callback is bound to the first prototype it is callable with).
// OBJ: 0 HeterCallbackList  1 HeterEventDispatcher  2 HeterEventQueue;  VIAQ (OBJ 2 only): 0 synchronous dispatch   1 enqueue + process
// (known finding KF-C14-1: an enqueued modifiable lvalue is recorded under P0 but dispatched to P1's callbacks -- assertion 295 below)
#include "common.h"

#ifndef OBJ
#define OBJ 1
#endif
#define EV 5

static int g_live_big = 0, g_bad = 0;
struct Big {
	uint32_t tag; uint32_t * cell; uint32_t pad[6]; uint32_t magic;
	explicit Big(uint32_t x) : tag(x), cell(new uint32_t(x ^ 0x55u)), magic(0xB16u) { for(int i = 0; i < 6; i++) pad[i] = x + (uint32_t)i; ++g_live_big; }
	Big(const Big & o) : tag(o.tag), cell(new uint32_t(*o.cell)), magic(0xB16u) { if(o.magic != 0xB16u) ++g_bad; for(int i = 0; i < 6; i++) pad[i] = o.pad[i]; ++g_live_big; }
	Big(Big && o) noexcept : tag(o.tag), cell(o.cell), magic(0xB16u) { if(o.magic != 0xB16u) ++g_bad; for(int i = 0; i < 6; i++) pad[i] = o.pad[i]; o.cell = nullptr; o.tag = 0xdeadu; ++g_live_big; }
	Big & operator=(const Big &) = delete;
	~Big() { if(magic != 0xB16u) ++g_bad; magic = 0xDEADu; delete cell; --g_live_big; }
	bool intact(uint32_t x) const { return magic == 0xB16u && tag == x && cell && *cell == (x ^ 0x55u) && pad[5] == x + 5u; }
};
using HT = eventpp::HeterTuple<void(Big &), void(Big), void(uint32_t, const Big &)>;
struct Pol { using Threading = VMutexOnlyThreading; };
#if OBJ == 0
using T = eventpp::HeterCallbackList<HT, Pol>;
#define ADDL(cb) t->append(cb)
#define CALL(...) (*t)(__VA_ARGS__)
#elif OBJ == 1
using T = eventpp::HeterEventDispatcher<int, HT, Pol>;
#define ADDL(cb) t->appendListener(EV, cb)
#define CALL(...) t->dispatch(EV, __VA_ARGS__)
#else
using T = eventpp::HeterEventQueue<int, HT, Pol>;
#define ADDL(cb) t->appendListener(EV, cb)
// synchronous dispatch, or enqueue + process: the same arguments are routed the same way
#ifndef VIAQ
#define VIAQ 0
#endif
#define CALL(...) do { if(viaQueue) { t->enqueue(EV, __VA_ARGS__); t->process(); } else t->dispatch(EV, __VA_ARGS__); } while(0)
#endif

struct TrEntry { int proto; uint32_t lid; uint32_t val; };
static TrEntry g_tr[16]; static int g_trn;
static void rec(int proto, uint32_t lid, uint32_t val) { if(g_trn < 16) { g_tr[g_trn].proto = proto; g_tr[g_trn].lid = lid; g_tr[g_trn].val = val; } g_trn++; }

enum { COV_LVALUE = 0, COV_CONST, COV_TEMP, COV_XVALUE, COV_SECOND_ARG, COV_N };

extern "C" void harness()
{
	T * t = new T();
	// two callbacks per prototype, registered interleaved; the editor callbacks (P0) modify the caller's object
	ADDL([](Big & b) { rec(0, 1, b.intact(b.tag) ? b.tag : 0xbadbad00u); b.pad[0] ^= 1u; });
	ADDL([](Big && b) { rec(1, 2, b.intact(b.tag) ? b.tag : 0xbadbad00u); });
	ADDL([](uint32_t a, const Big & b) { rec(2, 3, b.intact(b.tag) ? (b.tag ^ a) : 0xbadbad00u); });
	ADDL([](Big & b) { rec(0, 4, b.intact(b.tag) ? b.tag : 0xbadbad00u); });
	ADDL([](Big && b) { rec(1, 5, b.intact(b.tag) ? b.tag : 0xbadbad00u); });
	uint32_t x = vf_nondet_u32(); vf_assume(x != 0xdeadu);
	uint32_t y = vf_nondet_u32();
	g_trn = 0;
	int expectProto; uint32_t expectVal = x; uint32_t l1, l2;
	bool viaQueue = false;
#if OBJ == 2
	viaQueue = VIAQ != 0;
#endif
	unsigned how = vf_choose(5);
	if(how == 0) { Big b(x); CALL(b); expectProto = 0; if(! viaQueue) vf_assert(b.pad[0] == (x ^ 1u), 290); vf_cover(COV_LVALUE); }      // the editors saw the caller's own object
	else if(how == 1) { const Big b(x); CALL(b); expectProto = 1; vf_cover(COV_CONST); }
	else if(how == 2) { CALL(Big(x)); expectProto = 1; vf_cover(COV_TEMP); }
	else if(how == 3) { Big b(x); CALL(std::move(b)); expectProto = 1; vf_cover(COV_XVALUE); }
	else { Big b(x); CALL(y, b); expectProto = 2; expectVal = x ^ y; vf_cover(COV_SECOND_ARG); }
	if(expectProto == 0) { l1 = 1; l2 = 4; } else if(expectProto == 1) { l1 = 2; l2 = 5; } else { l1 = 3; l2 = 0; }
	// exactly the callbacks bound to the selected prototype, in their order, once each, with intact arguments
	vf_assert(g_trn == (l2 ? 2 : 1), 291);
	if(viaQueue && how == 0) vf_assert(g_trn >= 1 && g_tr[0].proto == expectProto && g_tr[0].lid == l1 && g_tr[0].val == expectVal, 295);     // KF-C14-1 fails exactly here
	vf_assert(g_trn >= 1 && g_tr[0].proto == expectProto && g_tr[0].lid == l1 && g_tr[0].val == expectVal, 292);
	if(l2) vf_assert(g_trn >= 2 && g_tr[1].proto == expectProto && g_tr[1].lid == l2 && g_tr[1].val == expectVal, 293);
	vf_obs(1, (uint64_t)g_trn);
	delete t;
	vf_assert(g_live_big == 0 && g_bad == 0, 294);
	vf_end();
}
