// scoped.cpp -- C15: histories of ScopedRemover operations over 2 targets and up to 3 removers.
//
// initial configuration chosen by vf_choose, then K steps from
//   add through remover r (append | prepend | insert-before) | add directly to target t | remove slot s through r |
//   r.reset() | re-target r to the other target | move-construct r -> new remover | move-assign r -> r' | swap(r, r') | destroy r
// After every step both targets are invoked and must show exactly: direct listeners + listeners some live remover is
// responsible for, in list order. At the end all removers are destroyed (in an order chosen by vf_choose) and only the
// direct listeners may remain.
#include "common.h"

#ifndef KK
#define KK 3
#endif
#ifndef TK
#define TK 0     // 0 CallbackList, 1 EventDispatcher, 2 EventQueue
#endif
#define MAXS (KK + 4)
#define NR 3
#define EV 3

static Trace g_tr;
static void self_detach_hook();
struct Cb {
	uint32_t slot;
	explicit Cb(uint32_t s) : slot(s) {}
	void operator()(uint32_t a) const { g_tr.add(slot, a, 0); if(slot == 999u) self_detach_hook(); }
};
#ifdef EQUIV
// a Map policy whose key equivalence is coarser than operator== of the Event type (a case-insensitive comparator, say): events 2 and 3 are
// the same event for the dispatcher. Listeners are added under 3 and removed through the remover under 2: removal detaches at once all the same.
struct HalfLess { bool operator()(int a, int b) const { return a / 2 < b / 2; } };
template <typename K_, typename V_> using EquivMap = std::map<K_, V_, HalfLess>;
struct Pol { using Threading = VMutexOnlyThreading; using Callback = Cb; template <typename K_, typename V_> using Map = EquivMap<K_, V_>; };
#define EVR 2
#else
struct Pol { using Threading = VMutexOnlyThreading; using Callback = Cb; };
#define EVR EV
#endif
#if TK == 0
using Target = eventpp::CallbackList<void(uint32_t), Pol>;
#elif TK == 1
using Target = eventpp::EventDispatcher<int, void(uint32_t), Pol>;
#else
using Target = eventpp::EventQueue<int, void(uint32_t), Pol>;
#endif
using SR = eventpp::ScopedRemover<Target>;
using Handle = Target::Handle;

struct Model {
	// per target: ordered list of attached slots
	int order[2][MAXS]; int cnt[2];
	int target[MAXS]; bool attached[MAXS]; int resp[MAXS];  // resp: remover responsible, -1 = direct / nobody
	int nslots;
	bool ralive[NR]; int rtarget[NR];
	void add(int t, int pos, int r) {
		for(int k = cnt[t]; k > pos; k--) order[t][k] = order[t][k - 1];
		order[t][pos] = nslots; cnt[t]++; target[nslots] = t; attached[nslots] = true; resp[nslots] = r; nslots++;
	}
	int pos(int s) const { int t = target[s]; for(int k = 0; k < cnt[t]; k++) if(order[t][k] == s) return k; return -1; }
	void detach(int s) {
		if(! attached[s]) return;
		int t = target[s]; int p = pos(s);
		for(int k = p; k < cnt[t] - 1; k++) order[t][k] = order[t][k + 1];
		cnt[t]--; attached[s] = false;
	}
	void reset(int r) { for(int s = 0; s < nslots; s++) if(resp[s] == r) { detach(s); resp[s] = -1; } }
};

struct G { Target * t[2]; SR * r[NR]; Handle hs[MAXS]; Model m; };
static G * g;

enum { COV_MOVE_ASSIGN_NONEMPTY = 0, COV_MOVE_CONSTRUCT, COV_SWAP, COV_RETARGET_NONEMPTY, COV_REMOVE_THROUGH, COV_REMOVE_FOREIGN, COV_DESTROY_NONEMPTY, COV_RESET_AFTER_DIRECT_REMOVE, COV_N };

static Handle t_append(int t, uint32_t s) {
#if TK == 0
	return g->t[t]->append(Cb(s));
#else
	return g->t[t]->appendListener(EV, Cb(s));
#endif
}
static bool t_remove(int t, const Handle & h) {
#if TK == 0
	return g->t[t]->remove(h);
#else
	return g->t[t]->removeListener(EV, h);
#endif
}
static void t_invoke(int t, uint32_t a) {
#if TK == 0
	(*g->t[t])(a);
#else
	g->t[t]->dispatch(EV, a);
#endif
}
static Handle r_add(int r, int kind, uint32_t s, const Handle & before) {
#if TK == 0
	if(kind == 0) return g->r[r]->append(Cb(s));
	if(kind == 1) return g->r[r]->prepend(Cb(s));
	return g->r[r]->insert(Cb(s), before);
#else
	if(kind == 0) return g->r[r]->appendListener(EV, Cb(s));
	if(kind == 1) return g->r[r]->prependListener(EV, Cb(s));
	return g->r[r]->insertListener(EV, Cb(s), before);
#endif
}
static bool r_remove(int r, const Handle & h) {
#if TK == 0
	return g->r[r]->remove(h);
#else
	return g->r[r]->removeListener(EVR, h);
#endif
}
static void r_retarget(int r, int t) {
#if TK == 0
	g->r[r]->setCallbackList(*g->t[t]);
#else
	g->r[r]->setDispatcher(*g->t[t]);
#endif
}

static SR * g_sd_r = nullptr; static Handle g_sd_h; static bool g_sd_done = true, g_sd_direct = false, g_sd_through = false;
static void self_detach_hook() { if(g_sd_done) return; g_sd_done = true; g_sd_direct = t_remove(0, g_sd_h); g_sd_through = r_remove(0, g_sd_h); }

static void observe()
{
	Model & m = g->m;
	for(int t = 0; t < 2; t++) {
		uint32_t a = vf_nondet_u32();
		g_tr.clear();
		t_invoke(t, a);
		vf_assert(g_tr.n == m.cnt[t], 100 + t);
		for(int i = 0; i < m.cnt[t] && i < g_tr.n; i++) {
			vf_assert((int)g_tr.e[i].id == m.order[t][i], 102);
			vf_assert(g_tr.e[i].a == a, 103);
			vf_obs(1 + t, g_tr.e[i].id);
		}
	}
}

static void add_through(int r, int kind)
{
	Model & m = g->m; int t = m.rtarget[r];
	int pos = m.cnt[t]; Handle before;
	if(kind == 1) pos = 0;
	if(kind == 2 && m.cnt[t] > 0) { int s0 = m.order[t][m.cnt[t] - 1]; before = g->hs[s0]; pos = m.cnt[t] - 1; }   // insert before the current last
	g->hs[m.nslots] = r_add(r, kind, (uint32_t)m.nslots, before);
	m.add(t, pos, r);
}

extern "C" void harness()
{
	g = new G(); Model & m = g->m;
	g->t[0] = new Target(); g->t[1] = new Target();
	for(int r = 0; r < NR; r++) g->r[r] = nullptr;
	// ---- initial configuration
	unsigned cfg = vf_choose(3);
	g->r[0] = new SR(*g->t[0]); m.ralive[0] = true; m.rtarget[0] = 0;
	add_through(0, 0);
	if(cfg == 0) { g->r[1] = new SR(*g->t[0]); m.ralive[1] = true; m.rtarget[1] = 0; }
	else if(cfg == 1) { g->r[1] = new SR(*g->t[1]); m.ralive[1] = true; m.rtarget[1] = 1; add_through(1, 0); }
	else { add_through(0, 1); g->r[1] = new SR(*g->t[0]); m.ralive[1] = true; m.rtarget[1] = 0; add_through(1, 0); }
	{ g->hs[m.nslots] = t_append(1, (uint32_t)m.nslots); m.add(1, m.cnt[1], -1); }    // one direct listener on target 1

	for(int step = 0; step < KK; step++) {
		// operation = (kind, remover r, operand)
		unsigned kind = vf_choose(10);
		if(kind == 0) {                       // add directly
			if(m.nslots < MAXS) { int t = (int)vf_choose(2); g->hs[m.nslots] = t_append(t, (uint32_t)m.nslots); m.add(t, m.cnt[t], -1); }
		}
		else {
			unsigned nr = 0; int alive[NR];
			for(int r = 0; r < NR; r++) if(m.ralive[r]) alive[nr++] = r;
			if(nr == 0) continue;
			int r = alive[vf_choose(nr)];
			if(kind == 1) { if(m.nslots < MAXS) add_through(r, (int)vf_choose(3)); }
			else if(kind == 2) {              // remove a slot through r
				int s = (int)vf_choose((unsigned)m.nslots);
				bool mine = m.resp[s] == r;
				bool want = mine && m.attached[s];
				if(! mine) vf_cover(COV_REMOVE_FOREIGN);
				bool got = r_remove(r, g->hs[s]);
				vf_assert(got == want, 110);
				if(mine) { m.detach(s); m.resp[s] = -1; if(want) vf_cover(COV_REMOVE_THROUGH); }
			}
			else if(kind == 3) {
				for(int s = 0; s < m.nslots; s++) if(m.resp[s] == r && ! m.attached[s]) vf_cover(COV_RESET_AFTER_DIRECT_REMOVE);
				g->r[r]->reset(); m.reset(r);
			}
			else if(kind == 4) {              // re-target to the other target
				int t = 1 - m.rtarget[r];
				for(int s = 0; s < m.nslots; s++) if(m.resp[s] == r && m.attached[s]) vf_cover(COV_RETARGET_NONEMPTY);
				r_retarget(r, t); m.reset(r); m.rtarget[r] = t;
			}
			else if(kind == 5) {              // move-construct into a free remover slot
				int n = -1; for(int k = 0; k < NR; k++) if(! m.ralive[k]) { n = k; break; }
				if(n >= 0) {
					g->r[n] = new SR(std::move(*g->r[r])); m.ralive[n] = true; m.rtarget[n] = m.rtarget[r];
					for(int s = 0; s < m.nslots; s++) if(m.resp[s] == r) m.resp[s] = n;
					vf_cover(COV_MOVE_CONSTRUCT);
				}
			}
			else if(kind == 6 || kind == 7) { // move-assign r -> d  /  swap(r, d)
				if(nr >= 2) {
					int d = alive[vf_choose(nr)];
					if(kind == 6) {
						if(d != r) for(int s = 0; s < m.nslots; s++) if(m.resp[s] == d && m.attached[s]) vf_cover(COV_MOVE_ASSIGN_NONEMPTY);
						*g->r[d] = std::move(*g->r[r]);
						if(d != r) {
							m.reset(d); m.rtarget[d] = m.rtarget[r];
							for(int s = 0; s < m.nslots; s++) if(m.resp[s] == r) m.resp[s] = d;
						}
					}
					else {
						g->r[r]->swap(*g->r[d]);
						if(d != r) {
							for(int s = 0; s < m.nslots; s++) { if(m.resp[s] == r) m.resp[s] = d; else if(m.resp[s] == d) m.resp[s] = r; }
							int tt = m.rtarget[r]; m.rtarget[r] = m.rtarget[d]; m.rtarget[d] = tt;
							vf_cover(COV_SWAP);
						}
					}
				}
			}
			else if(kind == 8) {              // destroy r
				for(int s = 0; s < m.nslots; s++) if(m.resp[s] == r && m.attached[s]) vf_cover(COV_DESTROY_NONEMPTY);
				delete g->r[r]; g->r[r] = nullptr; m.ralive[r] = false; m.reset(r);
			}
			else {                            // remove a listener directly from its target, bypassing the remover
				int s = (int)vf_choose((unsigned)m.nslots);
				bool got = t_remove(m.target[s], g->hs[s]);
				vf_assert(got == m.attached[s], 111);
				m.detach(s);
			}
		}
		observe();
	}
	// ---- destroy the remaining removers in a chosen order: only direct listeners (and nothing else) may remain
	unsigned first = vf_choose(NR);
	for(int k = 0; k < NR; k++) {
		int r = (int)((first + k) % NR);
		if(m.ralive[r]) { delete g->r[r]; g->r[r] = nullptr; m.ralive[r] = false; m.reset(r); }
	}
	observe();
	for(int s = 0; s < m.nslots; s++) vf_assert(! m.attached[s] || m.resp[s] == -1, 112);
	for(int s = 0; s < MAXS; s++) g->hs[s] = Handle();
	{	// a listener added through a remover detaches itself DIRECTLY on the target from inside its own invocation (its node is still alive), then
		// asks the remover to remove it: the remover reports that nothing was attached, and forgets it
		g->r[0] = g_sd_r = new SR(*g->t[0]);
		g_sd_h = r_add(0, 0, 999, Handle());      // remover g->r[0] slot is free here (all removers were destroyed); use it as the holder
		g_sd_done = false;
		t_invoke(0, 7u);
		vf_assert(g_sd_done && g_sd_direct && ! g_sd_through, 113);
		g_tr.clear(); t_invoke(0, 8u);
		for(int i = 0; i < g_tr.n; i++) vf_assert(g_tr.e[i].id != 999u, 114);
		g_sd_h = Handle();
		delete g_sd_r; g_sd_r = nullptr; g->r[0] = nullptr;
	}
	delete g->t[0]; delete g->t[1];
	delete g; g = nullptr;
	vf_end();
}
