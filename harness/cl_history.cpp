// cl_history.cpp -- C01 (and, with -DTRACKED, C08; with -DWRAP, C19): histories of CallbackList operations.
//
// K mutator steps chosen by vf_choose (append / prepend / insert-before h / remove h / removeListener(probe)),
// h ranging over every handle handed out so far (live or stale) and a never-assigned empty handle;
// ids, probes and invocation arguments are symbolic 32-bit values. After every step the full
// observation suite runs against the reference model (an ordered array).
#include "common.h"

#ifndef KK
#define KK 4
#endif
#ifdef WRAP
#define MAXN (KK + 3)
#else
#define MAXN (KK + 1)
#endif

static Trace g_tr;

#ifdef TRACKED
// ledger-counted callback: every construction/destruction is counted; double destruction and use
// after destruction are detected through the 'alive' magic.
static int g_live_cb = 0;
static int g_bad = 0;
struct Cb {
	uint32_t id; uint32_t magic;
	explicit Cb(uint32_t i) : id(i), magic(0xC0FFEEu) { ++g_live_cb; }
	Cb(const Cb & o) : id(o.id), magic(0xC0FFEEu) { if(o.magic != 0xC0FFEEu) ++g_bad; ++g_live_cb; }
	Cb & operator=(const Cb & o) { if(o.magic != 0xC0FFEEu || magic != 0xC0FFEEu) ++g_bad; id = o.id; return *this; }
	~Cb() { if(magic != 0xC0FFEEu) ++g_bad; magic = 0xDEADu; --g_live_cb; }
	void operator()(uint32_t a, uint32_t b) const { if(magic != 0xC0FFEEu) ++g_bad; g_tr.add(id, a, b); }
	bool operator==(const Cb & o) const { return id == o.id; }
};
#else
struct Cb {
	uint32_t id; mutable uint32_t calls;      // a callable with its own state: the STORED object is the one that is invoked, every time
	explicit Cb(uint32_t i) : id(i), calls(0) {}
	void operator()(uint32_t a, uint32_t b) const { ++calls; g_tr.add(id, a, b); }
	bool operator==(const Cb & o) const { return id == o.id; }
};
#endif

#ifndef THREADING
#define THREADING VMutexOnlyThreading
#endif
#ifdef CBFUNC
struct Pol { using Threading = THREADING; };            // default callback storage: std::function
#else
struct Pol { using Threading = THREADING; using Callback = Cb; };
#endif
using CL = eventpp::CallbackList<void(uint32_t, uint32_t), Pol>;

struct Model {
	int order[MAXN]; int cnt; bool live[MAXN]; uint32_t id[MAXN]; int alloc; uint32_t calls[MAXN];
	void invoked() { for(int k = 0; k < cnt; k++) calls[order[k]]++; }
	void add_at(int pos, uint32_t i) {
		for(int k = cnt; k > pos; k--) order[k] = order[k - 1];
		order[pos] = alloc; cnt++; live[alloc] = true; id[alloc] = i; calls[alloc] = 0; alloc++;
	}
	int pos(int slot) const { for(int k = 0; k < cnt; k++) if(order[k] == slot) return k; return -1; }
	bool isLive(int slot) const { return slot < alloc && live[slot]; }
	bool remove(int slot) {
		if(! isLive(slot)) return false;
		int p = pos(slot);
		for(int k = p; k < cnt - 1; k++) order[k] = order[k + 1];
		cnt--; live[slot] = false; return true;
	}
};

struct St { CL list; CL::Handle hs[MAXN + 1]; };   // hs[MAXN] stays empty

enum { COV_INVOKE2 = 0, COV_REMOVE_TRUE, COV_REMOVE_STALE, COV_INSERT_MID, COV_INSERT_STALE, COV_RL_FOUND, COV_FEI_STOP, COV_HAS_TRUE, COV_WRAP, COV_N };

static void observe(St * st, Model & m, bool final_step)
{
	// empty / hasAnyListener
	vf_assert(st->list.empty() == (m.cnt == 0), 10);
	vf_assert(eventpp::hasAnyListener(st->list) == (m.cnt != 0), 11);
	// invocation: exactly the model's callbacks, once each, in order, with the invocation's arguments
	uint32_t a = vf_nondet_u32(), b = vf_nondet_u32();
	g_tr.clear();
	st->list(a, b); m.invoked();
	vf_assert(g_tr.n == m.cnt, 12);
	for(int i = 0; i < m.cnt && i < g_tr.n; i++) {
		vf_assert(g_tr.e[i].id == m.id[m.order[i]], 13);
		vf_assert(g_tr.e[i].a == a && g_tr.e[i].b == b, 14);
		vf_obs(1, g_tr.e[i].id);
	}
	if(m.cnt >= 2) vf_cover(COV_INVOKE2);
	// forEach with (handle, callback): same content, each handle owned and equal to the one handed out
	int n = 0; bool ok = true, okcalls = true;
	st->list.forEach([&](const CL::Handle & h, const CL::Callback & cb) {
		if(n < m.cnt) {
#ifndef CBFUNC
			if(!(cb.id == m.id[m.order[n]])) ok = false;
#ifndef TRACKED
			if(cb.calls != m.calls[m.order[n]]) okcalls = false;      // the stored callable itself was invoked, each time it was in the list
#endif
#endif
			auto p = h.lock(); auto q = st->hs[m.order[n]].lock();
			if(!p || p != q) ok = false;
		}
		++n;
	});
	vf_assert(n == m.cnt, 15); vf_assert(ok, 16); vf_assert(okcalls, 25);
	// forEach with (callback) only
	n = 0;
	st->list.forEach([&](const CL::Callback &) { ++n; });
	vf_assert(n == m.cnt, 17);
	// ownsHandle for every handle ever handed out and for the empty handle
	for(int s = 0; s <= MAXN; s++) {
		if(s < m.alloc || s == MAXN) vf_assert(st->list.ownsHandle(st->hs[s]) == m.isLive(s), 18);
	}
	if(final_step && m.cnt > 0) {
		// an enumeration functor removes the handle it is visiting, twice: the second remove must report false, ownsHandle false
		// (the visited node is still alive, kept by the enumeration); the model removes the first callback
		bool first = true; bool r1 = false, r2 = true, own = true;
		st->list.forEach([&](const CL::Handle & h, const CL::Callback &) {
			if(first) { first = false; r1 = st->list.remove(h); r2 = st->list.remove(h); own = st->list.ownsHandle(h); }
		});
		vf_assert(r1 && ! r2 && ! own, 22);
		m.remove(m.order[0]);
		g_tr.clear(); st->list(a, b); m.invoked();
		vf_assert(g_tr.n == m.cnt, 23);
		for(int i = 0; i < m.cnt && i < g_tr.n; i++) vf_assert(g_tr.e[i].id == m.id[m.order[i]], 24);
	}
	if(final_step) {
		// forEachIf stops exactly where asked (symbolic stop position)
		uint32_t stop = vf_nondet_u32();
		n = 0;
		bool r = st->list.forEachIf([&](const CL::Callback &) -> bool { return (uint32_t)(n++) != stop; });
		bool expectAll = stop >= (uint32_t)m.cnt;
		vf_assert(r == expectAll, 19);
		vf_assert((uint32_t)n == (expectAll ? (uint32_t)m.cnt : stop + 1u), 20);
		if(! expectAll) vf_cover(COV_FEI_STOP);
#ifndef CBFUNC
		// hasListener for an arbitrary probe id
		uint32_t probe = vf_nondet_u32();
		bool has = eventpp::hasListener(st->list, Cb(probe));
		bool want = false;
		for(int i = 0; i < m.cnt; i++) if(m.id[m.order[i]] == probe) want = true;
		vf_assert(has == want, 21);
		if(has) vf_cover(COV_HAS_TRUE);
#endif
	}
}

extern "C" void harness()
{
	g_tr.clear();
#ifdef HAVOC
	// C20: the object is constructed in storage that previously held arbitrary bytes
	void * raw = malloc(sizeof(St)); vf_havoc(raw, sizeof(St));
	St * st = new (raw) St;
#else
	St * st = new St();
#endif
	Model m{};
#ifdef WRAP
	// C19: some callbacks are added while the counter is still small (they keep small generation numbers, as the oldest
	// callbacks of a long-lived list do), then the counter is placed W steps before the wrap; where exactly is the solver's choice
	{
		unsigned npre = vf_choose(3);
		for(unsigned i = 0; i < npre; i++) { uint32_t id = vf_nondet_u32(); st->hs[m.alloc] = (i & 1) ? st->list.prepend(Cb(id)) : st->list.append(Cb(id)); m.add_at((i & 1) ? 0 : m.cnt, id); }
		uint32_t c0 = vf_nondet_u32();
		vf_assume(c0 >= 0xffffffffu - (WRAP));
		st->list.currentCounter.value = c0;
	}
#endif
	for(int step = 0; step < KK; step++) {
		unsigned nh = (unsigned)m.alloc + 1;           // handles to choose from: slots 0..alloc-1 and the empty one
		unsigned op = vf_choose(3 + 2 * nh);
		if(op == 0) {
			uint32_t id = vf_nondet_u32();
			st->hs[m.alloc] = st->list.append(Cb(id)); m.add_at(m.cnt, id);
		}
		else if(op == 1) {
			uint32_t id = vf_nondet_u32();
			st->hs[m.alloc] = st->list.prepend(Cb(id)); m.add_at(0, id);
		}
#ifndef CBFUNC
		else if(op == 2) {
			uint32_t probe = vf_nondet_u32();
			bool r = eventpp::removeListener(st->list, Cb(probe));
			int victim = -1;
			for(int i = 0; i < m.cnt && victim < 0; i++) if(m.id[m.order[i]] == probe) victim = m.order[i];
			vf_assert(r == (victim >= 0), 1);
			if(victim >= 0) { m.remove(victim); vf_cover(COV_RL_FOUND); }
		}
#else
		else if(op == 2) { }
#endif
		else if(op < 3 + nh) {
			unsigned s = op - 3; if(s == (unsigned)m.alloc) s = MAXN;
			uint32_t id = vf_nondet_u32();
			CL::Handle before = st->hs[s];     // a copy of the handle
			int p = m.isLive((int)s) ? m.pos((int)s) : m.cnt;
			if(m.isLive((int)s) && p > 0) vf_cover(COV_INSERT_MID);
			if(! m.isLive((int)s) && s != MAXN) vf_cover(COV_INSERT_STALE);
			st->hs[m.alloc] = st->list.insert(Cb(id), before); m.add_at(p, id);
		}
		else {
			unsigned s = op - 3 - nh; if(s == (unsigned)m.alloc) s = MAXN;
			bool wasStale = (s != MAXN) && ! m.isLive((int)s);
			bool r = st->list.remove(st->hs[s]);
			bool e = m.remove((int)s);
			vf_assert(r == e, 2);
			vf_obs(2, r);
			if(r) vf_cover(COV_REMOVE_TRUE);
			if(wasStale) vf_cover(COV_REMOVE_STALE);
		}
#ifdef WRAP
		if(st->list.currentCounter.value < 0x80000000u && st->list.currentCounter.value >= 1) vf_cover(COV_WRAP);
#endif
		observe(st, m, step == KK - 1);
#ifdef TRACKED
		// quiescent point: the live callback instances are exactly the model's
		vf_assert(g_live_cb == m.cnt, 30);
		vf_assert(g_bad == 0, 31);
#endif
	}
#ifdef HAVOC
	st->~St(); free(raw);
#else
	delete st;
#endif
#ifdef TRACKED
	vf_assert(g_live_cb == 0, 32);
	vf_assert(g_bad == 0, 33);
#endif
	vf_end();
}
