// heter_include.cpp -- C14 / C20: heterogeneous dispatcher and queue in ArgumentPassingIncludeEvent mode with a key type whose moved-from state
// differs from its value (like std::string): the event is BOTH the routing key and the first argument the listeners receive. "dispatch or enqueue ...
// reaches exactly the callbacks bound to that prototype ... with intact arguments" -- whatever the value category of the key at the call site, and
// whatever the compiler and -std (C20): the listeners must see the key the caller passed, not a moved-from one.
// OBJ: 1 HeterEventDispatcher   2 HeterEventQueue (dispatch, or enqueue + process)
#include "common.h"

#ifndef OBJ
#define OBJ 1
#endif

struct MoveKey {
	uint32_t k; uint32_t state;
	MoveKey() : k(0), state(1) {}
	explicit MoveKey(uint32_t v) : k(v), state(1) {}
	MoveKey(const MoveKey & o) : k(o.k), state(o.state) {}
	MoveKey(MoveKey && o) noexcept : k(o.k), state(o.state) { o.k = 0; o.state = 2; }       // a moved-from key looks like MoveKey(0), as an empty string would
	MoveKey & operator=(const MoveKey & o) { k = o.k; state = o.state; return *this; }
	MoveKey & operator=(MoveKey && o) noexcept { k = o.k; state = o.state; o.k = 0; o.state = 2; return *this; }
	bool operator<(const MoveKey & o) const { return k < o.k; }
	bool operator==(const MoveKey & o) const { return k == o.k; }
};
template <typename K, typename V> using StdMap = std::map<K, V>;
using HT = eventpp::HeterTuple<void(const MoveKey &, uint32_t), void(const MoveKey &)>;
#ifdef EXCL
// EXCL: the default ArgumentPassingExcludeEvent mode with a getEvent policy that takes the movable ARGUMENT by value and consumes its copy:
// the policy must get a copy, the listeners (and the queued tuple) the caller's value
struct Pol {
	using Threading = VMutexOnlyThreading; template <typename K, typename V> using Map = StdMap<K, V>;
	static uint32_t getEvent(uint32_t code, MoveKey k, uint32_t) { MoveKey sink(std::move(k)); (void)sink; return code; }
	static uint32_t getEvent(uint32_t code, MoveKey k) { MoveKey sink(std::move(k)); (void)sink; return code; }
};
using EvT = uint32_t;
#define EVKEY(v) (v)
#else
struct Pol { using Threading = VMutexOnlyThreading; using ArgumentPassingMode = eventpp::ArgumentPassingIncludeEvent; template <typename K, typename V> using Map = StdMap<K, V>; };
using EvT = MoveKey;
#define EVKEY(v) MoveKey(v)
#endif
#if OBJ == 1
using T = eventpp::HeterEventDispatcher<EvT, HT, Pol>;
#else
using T = eventpp::HeterEventQueue<EvT, HT, Pol>;
#endif

struct TrEntry { int proto; uint32_t lid; uint32_t key; uint32_t state; uint32_t val; };
static TrEntry g_tr[16]; static int g_trn;
static void rec(int proto, uint32_t lid, const MoveKey & k, uint32_t val) { if(g_trn < 16) { g_tr[g_trn].proto = proto; g_tr[g_trn].lid = lid; g_tr[g_trn].key = k.k; g_tr[g_trn].state = k.state; g_tr[g_trn].val = val; } g_trn++; }

enum { COV_TEMP = 0, COV_LVALUE, COV_CONST, COV_XVALUE, COV_ONE_ARG, COV_MISS, COV_N };

extern "C" void harness()
{
	T * t = new T();
	uint32_t k1 = vf_nondet_u32(), kd = vf_nondet_u32(), val = vf_nondet_u32();
	vf_assume(k1 != 0 && kd != 0);                       // 0 is what a moved-from key looks like
	t->appendListener(EVKEY(k1), [](const MoveKey & k, uint32_t a) { rec(0, 1, k, a); });
	t->appendListener(EVKEY(k1), [](const MoveKey & k) { rec(1, 2, k, 0); });
	t->appendListener(EVKEY(k1), [](const MoveKey & k, uint32_t a) { rec(0, 3, k, a); });
	t->appendListener(EVKEY(0), [](const MoveKey & k, uint32_t a) { rec(0, 9, k, a); });      // listens to the key a moved-from event would route to
	g_trn = 0;
	bool viaQueue = false;
#if OBJ == 2
	viaQueue = vf_choose(2) != 0;
#define CALL(...) do { if(viaQueue) { t->enqueue(__VA_ARGS__); t->process(); } else t->dispatch(__VA_ARGS__); } while(0)
#else
#define CALL(...) t->dispatch(__VA_ARGS__)
#endif
	int proto = 0;
#ifdef EXCL
	uint32_t pv = vf_nondet_u32(); vf_assume(pv != 0);
	const uint32_t expectKey = pv;
	switch(vf_choose(5)) {
	case 0: CALL(kd, MoveKey(pv), val); vf_cover(COV_TEMP); break;
	case 1: { MoveKey key(pv); CALL(kd, key, val); vf_assert(key.k == pv && key.state == 1, 280); vf_cover(COV_LVALUE); break; }
	case 2: { const MoveKey key(pv); CALL(kd, key, val); vf_cover(COV_CONST); break; }
	case 3: { MoveKey key(pv); CALL(kd, std::move(key), val); vf_cover(COV_XVALUE); break; }
	default: CALL(kd, MoveKey(pv)); proto = 1; vf_cover(COV_ONE_ARG); break;
	}
#else
	const uint32_t expectKey = kd;
	switch(vf_choose(5)) {
	case 0: CALL(MoveKey(kd), val); vf_cover(COV_TEMP); break;
	case 1: { MoveKey key(kd); CALL(key, val); vf_assert(key.k == kd && key.state == 1, 280); vf_cover(COV_LVALUE); break; }       // the caller's lvalue is not consumed
	case 2: { const MoveKey key(kd); CALL(key, val); vf_cover(COV_CONST); break; }
	case 3: { MoveKey key(kd); CALL(std::move(key), val); vf_cover(COV_XVALUE); break; }
	default: CALL(MoveKey(kd)); proto = 1; vf_cover(COV_ONE_ARG); break;
	}
#endif
	(void)viaQueue;
	// exactly the callbacks of the selected prototype registered for the dispatched key, in order, each seeing that key and the value intact
	if(kd == k1) {
		if(proto == 0) {
			vf_assert(g_trn == 2, 281);
			vf_assert(g_trn >= 1 && g_tr[0].lid == 1 && g_tr[0].key == expectKey && g_tr[0].state == 1 && g_tr[0].val == val, 282);
			vf_assert(g_trn >= 2 && g_tr[1].lid == 3 && g_tr[1].key == expectKey && g_tr[1].state == 1 && g_tr[1].val == val, 283);
		}
		else {
			vf_assert(g_trn == 1, 284);
			vf_assert(g_trn >= 1 && g_tr[0].lid == 2 && g_tr[0].key == expectKey && g_tr[0].state == 1, 285);
		}
	}
	else { vf_assert(g_trn == 0, 286); vf_cover(COV_MISS); }       // in particular not the listener of the moved-from key
	vf_obs(1, (uint64_t)g_trn);
	delete t;
	vf_end();
}
