#!/usr/bin/env python3
"""check driver: lower harness -> explore with E-sym -> validate witnesses natively -> replay candidate
violations natively -> verdict + evidence.  Invoked through /verif/check."""
import sys, os, time, json, subprocess, tempfile, shutil, hashlib, re, collections
HERE = os.path.dirname(os.path.abspath(__file__))
VERIF = os.path.dirname(HERE)
SUPPORT_SELFTEST = 'not run'
OUT = os.environ.get('VERIF_OUT', VERIF)      # evidence/ and replay/ go here (seed regression and background runs redirect it)
sys.path.insert(0, HERE)
import irparse, symx
import props

REPO = os.environ.get('VERIF_REPO', '/repo')
CLANG = 'clang++-14'
IRFLAGS = ['-O1', '-fno-vectorize', '-fno-slp-vectorize', '-fno-unroll-loops', '-fno-rtti', '-D_GLIBCXX_TSAN=1', '-DEVENTPP_VERIF',
           '-I' + REPO + '/include', '-S', '-emit-llvm', '-Wno-everything',
           '-Xclang', '-mno-constructor-aliases']      # (explicit instantiations, e.g. of basic_string<char>, would otherwise emit IR aliases)


LINECOV = bool(os.environ.get('VERIF_LINECOV'))


def sh(cmd, **kw):
    return subprocess.run(cmd, stdout=subprocess.PIPE, stderr=subprocess.PIPE, text=True, **kw)


def defs(d):
    return ['-D%s=%s' % (k, v) if v is not None else '-D' + k for k, v in sorted(d.items())]


class Lowered:
    pass


def lower(run, work):
    """clang++ -> .ll for harness and support TU, llvm-link, parse. Regenerated from /repo on every call."""
    t0 = time.time()
    src = os.path.join(VERIF, 'harness', run.harness)
    ll = os.path.join(work, run.name + '.ll')
    flags = ['-std=' + run.std] + (['-fgnuc-version=' + run.gnuc] if run.gnuc else []) + IRFLAGS + (['-fexceptions'] if run.exc else ['-fno-exceptions']) + defs(run.defines)
    flags = [f for f in flags if not (run.opt and f == '-O1')] + (['-' + run.opt] if run.opt else [])
    if run.shared_points or LINECOV or getattr(run, 'linetables', False): flags.append('-gline-tables-only')   # line tables tell library code from harness bookkeeping
    r = sh([CLANG] + flags + [src, '-o', ll])
    if r.returncode != 0 and not run.exc and 'exceptions disabled' in r.stderr:
        # the library under test uses try/catch/throw on this tree: lower with exceptions enabled instead (the engine executes invoke/landingpad)
        flags = [('-fexceptions' if f == '-fno-exceptions' else f) for f in flags]
        r = sh([CLANG] + flags + [src, '-o', ll])
    if r.returncode != 0:
        raise RuntimeError('lowering failed for %s:\n%s' % (run.name, r.stderr[-3000:]))
    sup = os.path.join(work, 'stdsupport.ll')
    if not os.path.exists(sup):
        r = sh([CLANG, '-std=c++17'] + [f for f in IRFLAGS if not f.startswith('-I')] + ['-fno-exceptions', os.path.join(VERIF, 'support', 'stdsupport.cpp'), '-o', sup])
        if r.returncode != 0: raise RuntimeError('lowering stdsupport failed:\n' + r.stderr[-2000:])
    out = os.path.join(work, run.name + '.linked.ll')
    r = sh(['llvm-link-14', '-S', ll, sup, '-o', out])
    if r.returncode != 0: raise RuntimeError('llvm-link failed:\n' + r.stderr[-2000:])
    text = open(out).read()
    m = irparse.parse_module(text)
    L = Lowered(); L.module = m; L.ll = out; L.lines = text.count('\n'); L.secs = time.time() - t0; L.cmd = ' '.join([CLANG] + flags)
    return L


def support_selftest(work):
    """Trusted-base check: the support TU (own list/tree/rehash functions that stand in for libstdc++.so in the lowered IR) must agree with the
    real libstdc++.so on random std::map / std::list / std::unordered_map operation sequences. Returns (ok, text)."""
    src = os.path.join(VERIF, 'support', 'support_difftest.cpp'); sup = os.path.join(VERIF, 'support', 'stdsupport.cpp')
    a = os.path.join(work, 'sd_ref'); b = os.path.join(work, 'sd_mine')
    p1 = subprocess.Popen(['g++', '-O1', '-std=c++17', src, '-o', a], stdout=subprocess.PIPE, stderr=subprocess.PIPE)
    p2 = subprocess.Popen(['g++', '-O1', '-std=c++17', src, sup, '-o', b], stdout=subprocess.PIPE, stderr=subprocess.PIPE)
    e1 = p1.communicate()[1]; e2 = p2.communicate()[1]
    if p1.returncode or p2.returncode: return False, 'support differential test does not build: ' + (e1 + e2).decode()[-500:]
    for sd in range(1, 9):
        ra = subprocess.run([a, str(sd)], capture_output=True, text=True).stdout.strip(); rb = subprocess.run([b, str(sd)], capture_output=True, text=True).stdout.strip()
        if ra != rb or not ra: return False, 'support TU disagrees with libstdc++.so for seed %d: %s vs %s' % (sd, ra, rb)
    return True, '8 random operation scripts (200 rounds x 60 ops on std::map/std::list, 300 unordered_map inserts, 40 std::hash<std::string> values each): support TU == libstdc++.so'


NATIVE_VARIANTS = {
    'gxx-O0-san': ['g++', '-O0', '-g', '-fsanitize=address,undefined', '-fno-sanitize-recover=undefined', '-fno-omit-frame-pointer'],
    'gxx-O2': ['g++', '-O2'],
    'clang-O1': ['clang++-14', '-O1'],
    'clang-O1-san': ['clang++-14', '-O1', '-g', '-fsanitize=address,undefined', '-fno-sanitize-recover=undefined'],
    'clang-O0-san': ['clang++-14', '-O0', '-g', '-fsanitize=address,undefined', '-fno-sanitize-recover=undefined'],
}


def start_native_builds(run, work, variants):
    procs = {}
    src = os.path.join(VERIF, 'harness', run.harness)
    for v in variants:
        out = os.path.join(work, '%s.%s.bin' % (run.name, v))
        cmd = NATIVE_VARIANTS[v] + ((['-fgnuc-version=' + run.gnuc] if run.gnuc else []) + ['-D_GLIBCXX_TSAN=1'] if v.startswith('clang') else []) + ['-std=' + run.std, '-w', '-I' + REPO + '/include', '-DEVENTPP_VERIF', '-DVF_NATIVE'] + defs(run.defines) + \
            (['-DVF_NO_NEW_REPLACEMENT'] if run.own_new else []) + [src, os.path.join(VERIF, 'runtime', 'vf_native.cpp'), '-o', out, '-lpthread']
        procs[v] = (subprocess.Popen(cmd, stdout=subprocess.PIPE, stderr=subprocess.PIPE, text=True), out, cmd)
    return procs


def finish_native_builds(procs):
    bins = {}
    for v, (p, out, cmd) in procs.items():
        so, se = p.communicate()
        if p.returncode != 0: raise RuntimeError('native build %s failed:\n%s' % (v, se[-3000:]))
        bins[v] = out
    return bins


def write_replay_txt(rp, path):
    with open(path, 'w') as f:
        for c in rp['choices']:
            k = c[0]
            if k == 'sym': f.write('sym %d %d\n' % (c[1], c[2] if c[2] is not None else 0))
            elif k == 'havoc': f.write('havoc %d %s\n' % (len(c[1]), ' '.join(str(b if b is not None else 0) for b in c[1])))
            else: f.write('%s %d\n' % (k, c[1]))
        for a, o, v in rp.get('heapfill', []): f.write('heapfill %d %d %d\n' % (a, o, v))


def run_native(binp, rp, work, timeout=20):
    path = os.path.join(work, 'rp_%s.txt' % hashlib.sha1(json.dumps(rp['choices']).encode()).hexdigest()[:12])
    write_replay_txt(rp, path)
    env = dict(os.environ); env['ASAN_OPTIONS'] = 'detect_leaks=0:abort_on_error=0:exitcode=77'; env['UBSAN_OPTIONS'] = 'halt_on_error=1:exitcode=78:print_stacktrace=0'
    try:
        r = subprocess.run([binp, path], stdout=subprocess.PIPE, stderr=subprocess.PIPE, text=True, timeout=timeout, env=env)
        return r.returncode, r.stdout, r.stderr
    except subprocess.TimeoutExpired as e:
        return -999, (e.stdout or b'').decode() if isinstance(e.stdout, bytes) else (e.stdout or ''), 'TIMEOUT'


def parse_obs(out):
    return [[int(x.split()[1]), int(x.split()[2])] for x in out.splitlines() if x.startswith('OBS ')]


def reproduces(viol, code, out, err):
    """does the native run show the violation the engine predicted?"""
    k = viol['kind']
    if k == 'assert': return code == 3 and ('VF-ASSERT-FAIL %d' % viol['aid']) in out
    if k == 'leak': return code == 4 or 'VF-LEAK' in out
    if k == 'deadlock': return code == 5
    if k == 'nonterm': return code == -999 or code == 77 and 'stack-overflow' in err
    if k in ('memory',): return code == 77 or code == 78 or code in (-11, -6, -7, 139, 134) or 'AddressSanitizer' in err or 'runtime error' in err
    if k == 'ub': return code == 78 or code == 77 or 'runtime error' in err
    if k in ('terminate', 'libassert', 'stdthrow'): return code in (-6, 134) or 'terminate' in err or 'Assertion' in err
    if k == 'compiler-dependent': return code == 3
    if k == 'bmc-law': return code == 3
    return False


def demangle(names):
    if not names: return {}
    r = sh(['llvm-cxxfilt-14'], input='\n'.join(names))
    outs = r.stdout.split('\n')
    return {n: (outs[i] if i < len(outs) else n) for i, n in enumerate(names)}


def load_known():
    p = os.path.join(VERIF, 'known_findings.json')
    if not os.path.exists(p): return []
    return json.load(open(p)).get('findings', [])


def match_known(known, pid, run, v):
    for k in known:
        if k.get('status') != 'open' or k.get('property') != pid: continue
        mt = k.get('match', {})
        if 'harness' in mt and mt['harness'] != run.harness: continue
        if 'run' in mt and not re.fullmatch(mt['run'], run.name): continue
        if 'aids' in mt and v['violation']['aid'] not in mt['aids']: continue
        if 'kind' in mt and mt['kind'] != v['violation']['kind']: continue
        if 'aid' in mt and mt['aid'] != v['violation']['aid']: continue
        if 'msg' in mt and not re.search(mt['msg'], v['violation']['msg']): continue
        if 'tag' in mt and mt['tag'] not in v['violation'].get('tags', []): continue
        return k
    return None


def bmc_run(pid, run, work, log):
    """E-bmc: lower a heap-free kernel TU with clang, translate the IR to C (engine/ir2c.py), decide the law harness with CBMC in one
    merged formula; differential test of the generated C against the g++ build of the real functions; WITNESS twin must fail;
    a failing law is re-evaluated natively on the real functions with the counterexample's values before it is reported."""
    import ir2c
    t0 = time.time()
    res = {'name': run.name, 'problems': [], 'confirmed': [], 'known': [], 'unconfirmed': [], 'validated': 0}
    K = os.path.join(VERIF, 'harness', 'kernels')
    ksrc = os.path.join(K, run.harness); laws = os.path.join(K, run.laws)
    ll = os.path.join(work, run.name + '.ll'); cgen = os.path.join(work, run.name + '.gen.c')
    flags = ['-std=' + run.std, '-fgnuc-version=10.0.0', '-O1', '-fno-exceptions', '-fno-rtti', '-fno-vectorize', '-fno-slp-vectorize', '-fno-unroll-loops', '-I' + REPO + '/include', '-S', '-emit-llvm', '-Wno-everything']
    r = sh([CLANG] + flags + [ksrc, '-o', ll])
    if r.returncode != 0 and 'exceptions disabled' in r.stderr:
        # the code the kernel wraps uses try / catch / throw on this tree: the IR->C translator has no exception support, so the CBMC cross-check is
        # not applicable here (fail closed for the cross-check only, never a VIOLATION); the E-sym runs lower with exceptions and decide the property
        res['notes'] = ['E-BMC-CROSS-CHECK-SKIPPED: %s does not lower with -fno-exceptions on this tree (the wrapped library code uses try/catch); the CBMC cross-check is not applied, the E-sym runs of this property decide it' % run.harness]
        res['lowering'] = {'cmd': ' '.join([CLANG] + flags), 'ir_lines': 0, 'secs': round(time.time() - t0, 2)}
        res['tot'] = {'paths': 0, 'steps': 0, 'forks': 0, 'queries': 0, 'qtime': 0, 'wall': time.time() - t0, 'nviol': 0, 'cover_wit': {}, 'samples': [], 'fcalls': {}, 'inconclusive': [],
                      'max_steps_seen': 0, 'ended': 0, 'pruned': 0, 'sched_points': 0, 'max_threads': 1, 'cache_hits': 0, 'deadlocks': 0, 'violations': []}
        return res
    if r.returncode != 0: raise RuntimeError('lowering kernel failed:\n' + r.stderr[-2000:])
    m = irparse.parse_module(open(ll).read())
    open(cgen, 'w').write(ir2c.Emitter(m, {'nsw': True, 'exc': False}).emit())
    res['lowering'] = {'cmd': ' '.join([CLANG] + flags), 'ir_lines': open(ll).read().count('\n'), 'secs': round(time.time() - t0, 2)}
    kernels = [f.name for f in m.funcs.values() if f.defined and f.name.startswith('k_')]
    # differential test generated C vs real functions
    gen_exe = os.path.join(work, run.name + '.gen.exe'); real_exe = os.path.join(work, run.name + '.real.exe')
    r1 = sh(['gcc', '-O1', '-w', '-I' + K, '-include', os.path.join(K, 'bmc_native_shim.h'), cgen, laws, '-o', gen_exe])
    r2 = sh(['g++', '-std=' + run.std, '-O1', '-w', '-I' + REPO + '/include', '-c', ksrc, '-o', real_exe + '.k.o'])
    r3 = sh(['gcc', '-O1', '-w', '-I' + K, '-c', laws, '-o', real_exe + '.l.o'])
    r4 = sh(['g++', real_exe + '.k.o', real_exe + '.l.o', '-o', real_exe])
    for rr in (r1, r2, r3, r4):
        if rr.returncode != 0: raise RuntimeError('native build of kernel/laws failed:\n' + rr.stderr[-1500:])
    refsrc = ksrc[:-4] + '_ref.cpp'
    if os.path.exists(refsrc):
        # representation check: a kernel that builds private state by hand is compared with the public-API path; on disagreement the kernel
        # does not represent the code on this tree and nothing is judged on it (fail closed, never a VIOLATION)
        rr = sh(['g++', '-std=' + run.std, '-O1', '-w', '-I' + REPO + '/include', refsrc, real_exe + '.k.o', '-o', real_exe + '.ref', '-lpthread'])
        rc = sh([real_exe + '.ref']) if rr.returncode == 0 else rr
        if rr.returncode != 0 or rc.returncode != 0:
            res['notes'] = ['E-BMC-CROSS-CHECK-SKIPPED: %s builds private state by hand and disagrees with the public-API path on this tree (%s): the kernel does not represent the code here, so the CBMC cross-check is not applied; the property is decided by the E-sym runs alone' % (run.harness, (rc.stdout + rc.stderr)[-300:].strip())]
            res['tot'] = {'paths': 0, 'steps': 0, 'forks': 0, 'queries': 0, 'qtime': 0, 'wall': time.time() - t0, 'nviol': 0, 'cover_wit': {}, 'samples': [], 'fcalls': {}, 'inconclusive': [],
                          'max_steps_seen': 0, 'ended': 0, 'pruned': 0, 'sched_points': 0, 'max_threads': 1, 'cache_hits': 0, 'deadlocks': 0, 'violations': []}
            return res
        res['validated'] += 1
    d1 = sh([gen_exe, '--difftest']).stdout.strip(); d2 = sh([real_exe, '--difftest']).stdout.strip()
    if d1 != d2 or not d1: res['problems'].append('ENGINE-MISMATCH: generated C and the real functions disagree in the differential test (%s vs %s)' % (d1, d2))
    else: res['validated'] += 1
    base = ['cbmc', cgen, laws, '-I', K, '--function', run.entry, '--unwind', str(run.unwind), '--unwinding-assertions', '--signed-overflow-check', '--undefined-shift-check',
            '--pointer-overflow-check', '--drop-unused-functions', '--no-malloc-may-fail']
    tq = time.time(); r = sh(base, timeout=run.budget_s); qsecs = time.time() - tq
    out = r.stdout
    results = re.findall(r'^\[(\S+)\] line (\d+) (.*): (SUCCESS|FAILURE)$', out, re.M)
    if not results: res['problems'].append('cbmc produced no verdict: ' + (out[-400:] + r.stderr[-400:]))
    failed = [x for x in results if x[3] == 'FAILURE']
    # vacuity: the WITNESS twin's final assert(0) must fail
    rw = sh(base + ['-DWITNESS'], timeout=run.budget_s)
    wres = re.findall(r'^\[(\S+)\] line (\d+) (.*): (SUCCESS|FAILURE)$', rw.stdout, re.M)
    if not any('reachability witness' in x[2] and x[3] == 'FAILURE' for x in wres): res['problems'].append('vacuity: the WITNESS assertion of the CBMC harness did not fail (assumptions unsatisfiable?)')
    log('  [%s] E-bmc: %d kernels, %d laws, %d failed, cbmc %.1fs' % (run.name, len(kernels), len(results), len(failed), qsecs))
    if failed:
        names = re.findall(r'IN(?:64|32)\((\w+)\)', open(laws).read())
        for f in failed[:3]:
            # one counterexample per failing law (a trace of the whole run only witnesses one of them)
            rt = sh(base + ['--property', f[0], '--trace'], timeout=run.budget_s)
            vals = {}
            for n in names:
                mm = re.findall(r'^\s*%s=(\d+)' % n, rt.stdout, re.M)
                if mm: vals[n] = int(mm[-1])
            rn = sh([real_exe] + ['%s=%d' % kv for kv in vals.items()])
            rp = {'choices': [['sym', 64, v] for v in vals.values()], 'inputs': vals, 'obs': [], 'cover': [], 'heapfill': [], 'steps': 0,
                  'violation': {'msg': 'CBMC: law "%s" fails for %s' % (f[2], vals), 'kind': 'ub' if ('overflow' in f[2] or 'shift' in f[2]) else 'bmc-law', 'aid': int(f[1]), 'where': run.laws + ':' + f[1], 'tags': []}}
            rec = {'run': run.name, 'harness': run.harness, 'defines': {}, 'std': run.std, 'exc': False, 'own_new': False, 'replay': rp, 'count': 1, 'bmc': {'laws': run.laws, 'kernel': run.harness}}
            if ('LAW-FAIL ' + f[2]) in rn.stdout:
                rec['native'] = {'variant': 'g++ build of the real functions', 'exit': rn.returncode, 'out': rn.stdout[-300:]}; res['confirmed'].append(rec)
            else:
                rec['native_attempts'] = [{'out': rn.stdout[-300:], 'exit': rn.returncode}]; res['unconfirmed'].append(rec)
    res['tot'] = {'paths': 1, 'steps': 0, 'forks': 0, 'queries': len(results), 'qtime': qsecs, 'wall': time.time() - t0, 'nviol': len(failed), 'cover_wit': {}, 'samples': [],
                  'fcalls': {k: 1 for k in kernels}, 'inconclusive': [], 'max_steps_seen': 0, 'ended': 1, 'pruned': 0, 'sched_points': 0, 'max_threads': 1, 'cache_hits': 0, 'deadlocks': 0, 'violations': []}
    res['bmc'] = {'laws': [x[2] for x in results], 'kernels': kernels, 'cbmc_seconds': round(qsecs, 2), 'cbmc_cmd': ' '.join(base[:1] + ['<generated.c>'] + base[2:])}
    return res


def second_solver(xq, work, name, cap=24):
    """re-decides a sample of the engine's z3 queries (path condition + branch/assertion condition, exported as SMT-LIB2) with cvc5"""
    out = {'solver': 'cvc5 (CLI, --tlimit=15000)', 'sampled': 0, 'agree': 0, 'disagree': 0, 'no_answer': 0}
    procs = []
    for i, (txt, verdict) in enumerate(xq[:cap]):
        f = os.path.join(work, 'xq_%s_%d.smt2' % (name, i))
        open(f, 'w').write('(set-logic ALL)\n' + txt)
        procs.append((subprocess.Popen(['cvc5', '--tlimit=15000', f], stdout=subprocess.PIPE, stderr=subprocess.PIPE, text=True), verdict, f))
    for p, verdict, f in procs:
        try: o, e = p.communicate(timeout=30)
        except subprocess.TimeoutExpired:
            p.kill(); o, e = '', 'timeout'
        ans = o.strip().split('\n')[0] if o.strip() else ''
        out['sampled'] += 1
        if ans in ('sat', 'unsat'):
            if ans == verdict: out['agree'] += 1
            else:
                out['disagree'] += 1; out.setdefault('first_disagreement', 'z3=%s cvc5=%s query=%s' % (verdict, ans, open(f).read()[:1500]))
        else: out['no_answer'] += 1
    return out


def explore_run(pid, run, tier, work, nproc, log):
    """returns dict with stats, violations (confirmed / unconfirmed), problems"""
    if getattr(run, 'kind', 'sym') == 'bmc': return bmc_run(pid, run, work, log)
    res = {'name': run.name, 'problems': [], 'confirmed': [], 'known': [], 'unconfirmed': []}
    L = lower(run, work)
    res['lowering'] = {'cmd': L.cmd, 'ir_lines': L.lines, 'secs': round(L.secs, 2)}
    procs = start_native_builds(run, work, run.native) if run.native else {}
    eng = symx.Engine(L.module, run.entry, max_faults=run.faults, max_preempt=run.preempt, max_path_steps=run.max_path_steps,
                      single_threaded_libc=not run.mt, shared_points=run.shared_points, linecov=LINECOV)
    tot = symx.run(eng, nproc, run.budget_s)
    res['tot'] = tot
    cov = tot.pop('cov', set())
    if LINECOV:      # tools/linecov.py: which lines of /repo/include/eventpp did the symbolic runs execute (alphabet-gap finder; not part of any verdict)
        d = os.path.join(OUT, 'linecov'); os.makedirs(d, exist_ok=True)
        json.dump({'present': sorted(eng.lines), 'covered': sorted(eng.lines[i] for i in cov)}, open(os.path.join(d, '%s__%s.json' % (pid, run.name)), 'w'))
    log('  [%s] paths=%d steps=%d forks=%d queries=%d qtime=%.1fs wall=%.1fs violations=%d inconclusive=%d' % (
        run.name, tot['paths'], tot['steps'], tot['forks'], tot['queries'], tot['qtime'], tot['wall'], tot['nviol'], len(tot['inconclusive'])))
    for x in tot['inconclusive'][:5]: res['problems'].append('inconclusive: ' + x)
    res['xcheck'] = second_solver(tot.pop('xq', []), work, run.name)
    if res['xcheck']['disagree']:
        res['problems'].append('SOLVER-DISAGREEMENT: cvc5 and z3 differ on %d of %d sampled path-condition queries of run %s (first: %s)' % (res['xcheck']['disagree'], res['xcheck']['sampled'], run.name, res['xcheck'].get('first_disagreement')))
    missing = [g for g in range(run.covers) if g not in tot['cover_wit']]
    optional = set(run.optional_covers)
    missing = [g for g in missing if g not in optional]
    if missing: res['problems'].append('vacuity: cover goal(s) %s not reached by any path' % missing)
    bins = finish_native_builds(procs) if procs else {}
    # ---- witness validation (translation validation of the engine against native builds)
    validated = 0; res['witness_mismatch'] = []; res['compiler_dependent'] = []
    if bins:
        wits = list(tot['cover_wit'].items())[:run.max_witnesses] + [('sample', s) for s in tot['samples'][:3]]
        for g, rp in wits:
            if any(c[0] == 'sym' and c[2] is None for c in rp['choices']): continue
            per = {}
            for v, b in bins.items():
                code, out, err = run_native(b, rp, work)
                obs = parse_obs(out)
                per[v] = {'ok': code == 0 and obs == rp['obs'], 'exit': code, 'obs': obs, 'out': out, 'err': err}
            bad = [v for v in per if not per[v]['ok']]
            validated += len(per) - len(bad)
            if not bad: continue
            # the engine executes clang's lowering: if a clang-built native binary agrees with the engine while a g++-built
            # one violates an assertion on the same inputs, eventpp's behaviour depends on the compiler (C04/C20), which is a violation
            clang_ok = any(per[v]['ok'] for v in per if v.startswith('clang'))
            gxx_assert = [v for v in bad if v.startswith('gxx') and per[v]['exit'] == 3]
            if clang_ok and gxx_assert and all(v.startswith('gxx') for v in bad):
                m_ = re.search(r'VF-ASSERT-FAIL (\d+)', per[gxx_assert[0]]['out'])
                rp2 = dict(rp); rp2['violation'] = {'msg': 'behaviour depends on the compiler: assertion %s fails in the %s build, holds in the clang build and in the engine (clang lowering)' % (m_.group(1) if m_ else '?', gxx_assert[0]),
                                                   'kind': 'compiler-dependent', 'aid': int(m_.group(1)) if m_ else None, 'where': 'native replay', 'tags': []}
                res['compiler_dependent'].append(rp2)
            else:
                v = bad[0]
                res['witness_mismatch'].append({'goal': g, 'variant': v, 'exit': per[v]['exit'], 'expected_obs': rp['obs'][:20], 'native_obs': per[v]['obs'][:20], 'stderr': per[v]['err'][-400:], 'stdout_tail': per[v]['out'][-300:]})
    res['validated'] = validated
    if res['witness_mismatch']: res['problems'].append('ENGINE-MISMATCH: %d witness replay(s) disagree with the native build (first: %s)' % (len(res['witness_mismatch']), json.dumps(res['witness_mismatch'][0])[:600]))
    # ---- candidate violations
    known = load_known()
    groups = collections.OrderedDict()
    for v in tot['violations']:
        key = (v['violation']['kind'], v['violation']['aid'], re.sub(r'\d+', '#', v['violation']['msg']))
        groups.setdefault(key, []).append(v)
    for rp2 in res['compiler_dependent'][:3]:
        rec = {'run': run.name, 'harness': run.harness, 'defines': run.defines, 'std': run.std, 'exc': run.exc, 'own_new': run.own_new, 'replay': rp2, 'count': len(res['compiler_dependent']),
               'native': {'variant': 'gxx', 'note': 'assertion fails natively under g++ only'}}
        k = match_known(known, pid, run, rp2)
        if k is not None: rec['known'] = k['id']; res['known'].append(rec)
        else: res['confirmed'].append(rec)
        break
    for key, vs in groups.items():
        vs.sort(key=lambda v: len(v['choices']))
        if key[0] == 'require':
            # a harness-side invariant (vf_require) does not hold: the run cannot decide the property on this tree; never a VIOLATION
            res['problems'].append('HARNESS-INVARIANT: %s on %d path(s) of run %s -- the invariant this run is relative to does not describe this tree; the run decides nothing (choices of the shortest: %s)'
                                   % (vs[0]['violation']['msg'], len(vs), run.name, json.dumps(vs[0]['choices'], default=str)[:300]))
            continue
        for v in vs[:3]:
            k = match_known(known, pid, run, v)
            rec = {'run': run.name, 'harness': run.harness, 'defines': run.defines, 'std': run.std, 'exc': run.exc, 'own_new': run.own_new, 'replay': v, 'count': len(vs)}
            if k is not None:
                rec['known'] = k['id']; res['known'].append(rec); break
            rep = None
            if bins:
                for vn, b in bins.items():
                    code, out, err = run_native(b, v, work)
                    if reproduces(v['violation'], code, out, err):
                        rep = {'variant': vn, 'exit': code, 'out': out[-300:], 'err': err[-600:]}; break
                    rec.setdefault('native_attempts', []).append({'variant': vn, 'exit': code, 'out': out[-200:], 'err': err[-300:]})
            if rep is not None:
                rec['native'] = rep; res['confirmed'].append(rec); break
            if not bins:
                rec['native'] = None; res['confirmed'].append(rec); break    # no native replay available for this run: engine verdict stands
            res['unconfirmed'].append(rec)
        else:
            continue
    return res


def save_replay(pid, rec):
    d = os.path.join(OUT, 'replay', pid); os.makedirs(d, exist_ok=True)
    h = hashlib.sha1(json.dumps(rec['replay']['choices'], sort_keys=True).encode() + rec['run'].encode()).hexdigest()[:12]
    p = os.path.join(d, h + '.json')
    json.dump(rec, open(p, 'w'), indent=1, default=str)
    return p


def do_replay(pid, path):
    rec = json.load(open(path))
    run = props.Run(rec['run'], rec['harness'], rec['defines'], std=rec.get('std', 'c++17'), exc=rec.get('exc', False), own_new=rec.get('own_new', False))
    work = tempfile.mkdtemp(prefix='verif-replay-')
    try:
        bins = finish_native_builds(start_native_builds(run, work, ['gxx-O0-san']))
        code, out, err = run_native(bins['gxx-O0-san'], rec['replay'], work)
        print(out[-2000:]); print(err[-3000:], file=sys.stderr)
        print('engine predicted: %s' % rec['replay']['violation']['msg'])
        ok = reproduces(rec['replay']['violation'], code, out, err)
        print('native replay exit=%d reproduces=%s' % (code, ok))
        return 1 if ok else 0
    finally:
        shutil.rmtree(work, ignore_errors=True)


def main():
    import argparse
    ap = argparse.ArgumentParser()
    ap.add_argument('pid'); ap.add_argument('--tier', default=os.environ.get('VERIF_TIER', 'quick')); ap.add_argument('--replay')
    ap.add_argument('-j', type=int, default=int(os.environ.get('VERIF_JOBS', '16'))); ap.add_argument('--only', default=None); ap.add_argument('--keep', action='store_true')
    a = ap.parse_args()
    pid = a.pid
    if a.replay: sys.exit(do_replay(pid, a.replay))
    seed = int(os.environ.get('VERIF_SEED', '0'))
    t0 = time.time()
    spec = props.PROPS[pid]
    runs = spec.quick if a.tier == 'quick' else spec.thorough
    if a.only: runs = [r for r in runs if r.name == a.only]
    work = tempfile.mkdtemp(prefix='verif-%s-' % pid)
    def log(s): print(s, flush=True)
    log('check %s tier=%s: %d run(s); IR regenerated from %s' % (pid, a.tier, len(runs), REPO))
    results = []; fatal = []
    global SUPPORT_SELFTEST
    try:
        ok, SUPPORT_SELFTEST = support_selftest(work)
        if not ok: fatal.append('TRUSTED-BASE: ' + SUPPORT_SELFTEST)
        for run in runs:
            try:
                results.append(explore_run(pid, run, a.tier, work, a.j, log))
            except Exception as e:
                import traceback
                fatal.append('%s: %s' % (run.name, e)); log('  [%s] ERROR %s' % (run.name, traceback.format_exc()[-1500:]))
    finally:
        if not a.keep: shutil.rmtree(work, ignore_errors=True)
    # ---- verdict
    exitcode = 0; nviol = 0; printed_known = set()
    for r in results:
        for rec in r['known']:
            if rec['known'] in printed_known: continue
            printed_known.add(rec['known'])
            k = next(x for x in load_known() if x['id'] == rec['known'])
            print('KNOWN-FINDING: property=%s %s' % (pid, k['what']))
        for rec in r['confirmed']:
            p = save_replay(pid, rec); nviol += 1
            print('VIOLATION property=%s replay=%s' % (pid, p))
            print('  run=%s x%d: %s' % (rec['run'], rec['count'], rec['replay']['violation']['msg']))
            exitcode = 1
        for rec in r['unconfirmed']:
            p = save_replay(pid, rec)
            uninit = 'uninit-read' in rec['replay']['violation'].get('tags', [])
            if uninit or rec['replay']['violation']['kind'] == 'ub':
                nviol += 1
                print('VIOLATION property=%s replay=%s' % (pid, p))
                print('  run=%s x%d: %s (depends on uninitialised memory / language-level UB: not reproducible by plain execution; engine verdict)' % (rec['run'], rec['count'], rec['replay']['violation']['msg']))
                exitcode = 1
            else:
                r['problems'].append('ENGINE-MISMATCH: candidate violation not reproduced natively: %s (replay %s)' % (rec['replay']['violation']['msg'], p))
    notes = [n for r in results for n in r.get('notes', [])]
    for n in notes: print('NOTE: ' + n[:600])
    problems = fatal + [p for r in results for p in r['problems']]
    if problems and exitcode == 0: exitcode = 2
    for p in problems: print('PROBLEM: ' + p[:1200])
    write_evidence(pid, a.tier, seed, spec, runs, results, problems, nviol, time.time() - t0)
    print('%s %s: %s (%.1fs)' % (pid, a.tier, {0: 'HOLDS within the stated bounds', 1: 'VIOLATED', 2: 'INCONCLUSIVE (fail closed)'}[exitcode], time.time() - t0))
    sys.exit(exitcode)


def write_evidence(pid, tier, seed, spec, runs, results, problems, nviol, wall):
    paths = sum(r['tot']['paths'] for r in results); forks = sum(r['tot']['forks'] for r in results)
    fc = collections.Counter()
    for r in results: fc.update(r['tot']['fcalls'])
    names = [n for n, _ in fc.most_common(400)]
    dm = demangle(names)
    enc = [{'function': dm[n][:200], 'calls': fc[n]} for n in names if 'eventpp::' in dm[n]][:60]
    samples = []
    for r in results:
        for s in r['tot']['samples'][:2]:
            samples.append({'run': r['name'], 'choices': [c if c[0] != 'havoc' else ['havoc', len(c[1])] for c in s['choices']][:80], 'observations': s['obs'][:40], 'ir_steps': s['steps']})
    cov = {
        'states': max(paths, 1), 'transitions': max(forks, 1),
        'traces_validated_against_impl': sum(r.get('validated', 0) for r in results),
        'samples': samples or [{'note': 'no completed path sampled'}],
        'explanation': 'states = symbolic paths explored to completion (each covers ALL values of its symbolic data); transitions = forks (structural choices, feasible symbolic branches, schedule/fault/wake decisions)',
        'exhaustive': not problems,
        'engine': 'E-sym (engine/symx.py): symbolic execution of clang-14 IR regenerated from /repo on this run; z3 decides assertions over symbolic data',
        'ir_steps': sum(r['tot']['steps'] for r in results),
        'solver_queries': sum(r['tot']['queries'] for r in results),
        'solver_cache_hits': sum(r['tot']['cache_hits'] for r in results),
        'solver_seconds': round(sum(r['tot']['qtime'] for r in results), 2),
        'paths_pruned_by_assume': sum(r['tot']['pruned'] for r in results),
        'runs': [{'name': r['name'], 'bounds': next(x.bounds for x in runs if x.name == r['name']), 'lowering': r['lowering'], 'paths': r['tot']['paths'], 'forks': r['tot']['forks'],
                  'ir_steps': r['tot']['steps'], 'max_steps_one_path': r['tot']['max_steps_seen'], 'solver_queries': r['tot']['queries'], 'solver_seconds': round(r['tot']['qtime'], 2),
                  'wall_s': round(r['tot']['wall'], 1), 'cover_goals_hit': sorted(r['tot']['cover_wit'].keys()), 'scheduling_points': r['tot']['sched_points'], 'threads': r['tot']['max_threads'],
                  'deadlock_states': r['tot']['deadlocks'], 'witnesses_validated_natively': r.get('validated', 0), 'violations': r['tot']['nviol']} for r in results],
        'functions_encoded': enc,
        'e_bmc': [dict(r['bmc'], run=r['name']) for r in results if 'bmc' in r],
        'second_solver_crosscheck': {'what': 'a sample of the z3 queries of every run (path condition + branch/assertion condition, exported as SMT-LIB2) re-decided by cvc5; a disagreement makes the check INCONCLUSIVE',
                                     'sampled': sum(r.get('xcheck', {}).get('sampled', 0) for r in results), 'agree': sum(r.get('xcheck', {}).get('agree', 0) for r in results),
                                     'disagree': sum(r.get('xcheck', {}).get('disagree', 0) for r in results), 'no_answer_in_15s': sum(r.get('xcheck', {}).get('no_answer', 0) for r in results)},
        'support_tu_selftest': SUPPORT_SELFTEST,
        'outside_the_bounds': spec.outside,
        'problems': problems,
        'notes': [n for r in results for n in r.get('notes', [])],
    }
    ev = {'property_id': pid, 'tier': tier, 'seed': seed, 'level': 'model_checking', 'coverage': cov,
          'assumptions': spec.assumptions + props.COMMON_ASSUMPTIONS, 'wall_s': round(wall, 2), 'violations': nviol}
    os.makedirs(os.path.join(OUT, 'evidence'), exist_ok=True)
    json.dump(ev, open(os.path.join(OUT, 'evidence', pid + '.json'), 'w'), indent=1, default=str)


if __name__ == '__main__':
    main()
