// faults.cpp -- C09 (and the exception part of C08): a throw at each individual point where user code runs or memory is
// allocated. Lowered with -fexceptions. Fault points ask vf_fault(kind): the engine forks "fires / does not fire" at
// every one of them (at most F faults per path), so the k-th point of every operation is reached for every k.
//   kinds: 1 operator new   2 callback/listener body   3 copy constructor of the tracked callback type
//          4 copy/move constructor of the tracked payload type   5 predicate / filter body
// CLASS: 0 CallbackList   1 EventQueue   2 EventDispatcher + ScopedRemover/CounterRemover/ConditionalRemover   3 HeterCallbackList
#include "common.h"

#ifndef CLASS
#define CLASS 0
#endif

struct VerifFault { int kind; };
static bool g_fired = false;
static inline void fault_point(int kind) { if(vf_fault(kind)) { g_fired = true; throw VerifFault{kind}; } }

// replaced global allocation functions: allocation failure is just another fault point
void * operator new(size_t n) { fault_point(1); void * p = malloc(n ? n : 1); if(! p) abort(); return p; }
void operator delete(void * p) noexcept { free(p); }
void operator delete(void * p, size_t) noexcept { free(p); }

static int g_live_cb = 0, g_live_pay = 0, g_bad = 0;
static Trace g_tr;

struct TCb {      // tracked callback whose copies and invocations can throw
	uint32_t id; uint32_t magic;
	explicit TCb(uint32_t i) : id(i), magic(0xCB0u) { ++g_live_cb; }
	TCb(const TCb & o) : id(o.id), magic(0xCB0u) { fault_point(3); if(o.magic != 0xCB0u) ++g_bad; ++g_live_cb; }
	TCb & operator=(const TCb & o) { if(o.magic != 0xCB0u || magic != 0xCB0u) ++g_bad; id = o.id; return *this; }
	~TCb() { if(magic != 0xCB0u) ++g_bad; magic = 0xDEADu; --g_live_cb; }
	void operator()(uint32_t a) const { if(magic != 0xCB0u) ++g_bad; g_tr.add(id, a, 0); fault_point(2); }
	bool operator==(const TCb & o) const { return id == o.id; }
};
struct TPay {     // tracked payload whose copies and moves can throw
	uint32_t v; uint32_t magic;
	explicit TPay(uint32_t x) : v(x), magic(0xFA1u) { ++g_live_pay; }
	TPay() : v(0), magic(0xFA1u) { ++g_live_pay; }
	TPay(const TPay & o) : v(o.v), magic(0xFA1u) { fault_point(4); if(o.magic != 0xFA1u) ++g_bad; ++g_live_pay; }
	TPay(TPay && o) : v(o.v), magic(0xFA1u) { fault_point(4); if(o.magic != 0xFA1u) ++g_bad; ++g_live_pay; }
	TPay & operator=(const TPay & o) { fault_point(4); if(o.magic != 0xFA1u || magic != 0xFA1u) ++g_bad; v = o.v; return *this; }
	TPay & operator=(TPay && o) { fault_point(4); if(o.magic != 0xFA1u || magic != 0xFA1u) ++g_bad; v = o.v; return *this; }
	~TPay() { if(magic != 0xFA1u) ++g_bad; magic = 0xDEADu; --g_live_pay; }
};

enum { COV_FAULT_NEW = 0, COV_FAULT_BODY, COV_FAULT_COPY, COV_FAULT_IN_PROCESS, COV_STRONG_OP_FAILED, COV_COPY_FAILED_LATE, COV_N };

#define MAXN 8
struct ListModel { uint32_t ids[MAXN]; int n; };

// run `op` with faults enabled; returns true if an exception arrived
template <typename F> static bool with_faults(F && op)
{
	bool caught = false; g_fired = false;
	vf_faults_enable(1);
	try { op(); } catch(const VerifFault & f) {
		caught = true;
		if(f.kind == 1) vf_cover(COV_FAULT_NEW); else if(f.kind == 2) vf_cover(COV_FAULT_BODY); else if(f.kind == 3 || f.kind == 4) vf_cover(COV_FAULT_COPY);
	}
	vf_faults_enable(0);
	vf_assert(caught == g_fired, 400);          // the exception reaches the caller (and nothing is thrown that was not injected)
	return caught;
}

#if CLASS == 0 || CLASS == 3
// ----------------------------------------------------------------------------------------------- callback lists
#if CLASS == 0
struct Pol { using Threading = VMutexOnlyThreading; using Callback = TCb; };
using CL = eventpp::CallbackList<void(uint32_t), Pol>;
static void cl_append(CL & l, uint32_t id) { l.append(TCb(id)); }
static void cl_invoke(CL & l, uint32_t a) { l(a); }
#else
struct Pol { using Threading = VMutexOnlyThreading; };
using CL = eventpp::HeterCallbackList<eventpp::HeterTuple<void(uint32_t), void()>, Pol>;
static void cl_append(CL & l, uint32_t id) { TCb cb(id); l.append([cb](uint32_t a) { cb(a); }); }
static void cl_invoke(CL & l, uint32_t a) { l(a); }
// the second prototype, void(): its sub-list is a separate object that copy / assignment handle after the first one
static void cl_append2(CL & l, uint32_t id) { TCb cb(id); l.append([cb]() { cb(0x2222u); }); }
#endif
static void check_list(CL & l, const ListModel & m, int aid)
{
	uint32_t a = vf_nondet_u32(); g_tr.clear();
	cl_invoke(l, a);
	vf_assert(g_tr.n == m.n, aid);
	for(int i = 0; i < m.n && i < g_tr.n; i++) vf_assert(g_tr.e[i].id == m.ids[i] && g_tr.e[i].a == a, aid + 1);
}
#if CLASS == 3
static void check_list2(CL & l, const ListModel & m2, int aid)
{
	g_tr.clear(); l();
	vf_assert(g_tr.n == m2.n, aid);
	for(int i = 0; i < m2.n && i < g_tr.n; i++) vf_assert(g_tr.e[i].id == m2.ids[i] && g_tr.e[i].a == 0x2222u, aid);
}
#else
#define check_list2(l, m2, aid) ((void)0)
#define cl_append2(l, id) ((void)0)
#endif
extern "C" void harness()
{
	CL * l = new CL(); ListModel m{};
	int n0 = 1 + (int)vf_choose(3);             // 1..3 callbacks before the faulty operation
	for(int i = 0; i < n0; i++) { cl_append(*l, 10u + (uint32_t)i); m.ids[m.n++] = 10u + (uint32_t)i; }
#if defined(WRAPC) && CLASS == 0
	// C19 x C09: the faulty operation is the one that takes the generation counter over the wrap, or one of the two before it
	l->currentCounter.value = 0xfffffffdu + vf_choose(3);
#endif
	ListModel m2{};                             // callbacks of the second prototype (heterogeneous list only)
#if CLASS == 3
	{ int n2 = (int)vf_choose(3); for(int i = 0; i < n2; i++) { cl_append2(*l, 30u + (uint32_t)i); m2.ids[m2.n++] = 30u + (uint32_t)i; } }
#endif
	int base_cb = g_live_cb;
	unsigned op = vf_choose(5);
	if(op == 0) {                               // add a callback: strong guarantee
		bool failed = with_faults([&]() { cl_append(*l, 50u); });
		if(! failed) m.ids[m.n++] = 50u; else vf_cover(COV_STRONG_OP_FAILED);
#if CLASS == 0
		vf_assert(g_live_cb == base_cb + (failed ? 0 : 1), 401);
#endif
	}
	else if(op == 1) {                          // invoke with a throwing callback: the list stays as it was, later callbacks simply do not run
		uint32_t a = vf_nondet_u32(); g_tr.clear();
		bool failed = with_faults([&]() { cl_invoke(*l, a); });
		if(! failed) vf_assert(g_tr.n == m.n, 402);
		for(int i = 0; i < g_tr.n && i < m.n; i++) vf_assert(g_tr.e[i].id == m.ids[i], 403);
		vf_assert(g_live_cb == base_cb, 404);
	}
	else if(op == 2) {                          // copy-construct: a failed copy leaves the source untouched and leaks nothing
		CL * c = nullptr;
		bool failed = with_faults([&]() { c = new CL(*l); });
		if(failed) { vf_assert(c == nullptr, 405); vf_assert(g_live_cb == base_cb, 406); if(n0 >= 3) vf_cover(COV_COPY_FAILED_LATE); }
		else { check_list(*c, m, 407); check_list2(*c, m2, 408); delete c; vf_assert(g_live_cb == base_cb, 409); }
	}
	else if(op == 3) {                          // copy-assign into a non-empty list: strong guarantee for the destination
		CL * d = new CL(); ListModel dm{}; ListModel dm2{};
		if(vf_choose(2)) {                      // ... or into an EMPTY one (fresh): the guarantee is the same, and the destination stays usable
		cl_append(*d, 70u); dm.ids[dm.n++] = 70u;
#if CLASS == 3
		cl_append2(*d, 71u); dm2.ids[dm2.n++] = 71u;
#endif
		}
		int before = g_live_cb;
		bool failed = with_faults([&]() { *d = *l; });
		if(failed) { check_list(*d, dm, 410); check_list2(*d, dm2, 411); vf_assert(g_live_cb == before, 412); vf_cover(COV_STRONG_OP_FAILED); }
		else { check_list(*d, m, 413); check_list2(*d, m2, 414); }
		{ ListModel & cur = failed ? dm : m; ListModel saved = cur; if(cur.n < MAXN) { cl_append(*d, 91u); cur.ids[cur.n++] = 91u; check_list(*d, cur, 425); } if(! failed) m = saved, m.n = saved.n; }   // the destination stays fully usable
		delete d;
		vf_assert(g_live_cb == base_cb, 415);
	}
	else {                                      // move-assign and swap never throw and never lose a callback
		CL * d = new CL(); cl_append(*d, 70u);
		bool failed = with_faults([&]() { *d = std::move(*l); });
		vf_assert(! failed, 416);
		check_list(*d, m, 417); check_list2(*d, m2, 418);
		using std::swap; swap(*d, *l);
		delete d;
	}
	// the object stays fully usable
	check_list(*l, m, 420); check_list2(*l, m2, 421);
	if(m.n < MAXN) { cl_append(*l, 90u); m.ids[m.n++] = 90u; check_list(*l, m, 422); }
	delete l;
	vf_assert(g_live_cb == 0 && g_bad == 0, 424);
	vf_end();
}

#elif CLASS == 4
// ----------------------------------------------------------------------------------------------- AnyData (C17 x C09)
// An AnyData built from / moved with a value whose copy or move throws: the exception arrives, no held object is destroyed that was never
// constructed, nothing leaks, and a successfully built holder reads back the value.
struct BigPay { TPay p; uint32_t pad[20]; explicit BigPay(uint32_t x) : p(x) { for(int i = 0; i < 20; i++) pad[i] = x + i; } };   // larger than the inline capacity
using AD = eventpp::AnyData<32>;
template <typename V> static uint32_t val_of(const V & x);
template <> uint32_t val_of<TPay>(const TPay & x) { return x.v; }
template <> uint32_t val_of<BigPay>(const BigPay & x) { return x.p.v; }
template <typename V> static void run_anydata(uint32_t x)
{
	V src(x);
	const int base = g_live_pay;
	AD * h = nullptr;
	bool failed = with_faults([&]() { h = new AD(src); });
	if(failed) { vf_assert(h == nullptr, 470); vf_cover(COV_STRONG_OP_FAILED); }
	else {
		vf_assert(g_live_pay == base + 1, 471);
		vf_assert(h->isType<V>() && val_of(h->get<V>()) == x, 472);
		AD * h2 = nullptr;
		bool failed2 = with_faults([&]() { h2 = new AD(std::move(*h)); });
		if(! failed2) { vf_assert(val_of(h2->get<V>()) == x, 473); delete h2; } else vf_assert(h2 == nullptr, 474);
		delete h;
	}
	vf_assert(g_live_pay == base, 475);         // every held object destroyed exactly once, none leaked
	vf_assert(val_of(src) == x, 476);           // a failed or successful copy leaves the source untouched
}
extern "C" void harness()
{
	uint32_t x = vf_nondet_u32();
	if(vf_choose(2)) run_anydata<TPay>(x); else run_anydata<BigPay>(x);
	vf_assert(g_live_pay == 0, 477);
	vf_assert(g_bad == 0, 478);                 // no destructor ran on storage that never held an object
	vf_end();
}

#elif CLASS == 5
// ----------------------------------------------------------------------------------------------- ordered queue, Event type whose comparison throws
// EventQueue with the OrderedQueueList policy and the default comparator (orders by event): the Event's operator< is "a comparison of a user type".
// enqueue has the strong guarantee: when it throws, the queue holds exactly the events it held before, still in order.
struct FKey {
	int v; uint32_t magic;
	explicit FKey(int x) : v(x), magic(0x4E7u) {}
	FKey() : v(0), magic(0x4E7u) {}
	FKey(const FKey & o) : v(o.v), magic(0x4E7u) { fault_point(6); if(o.magic != 0x4E7u) ++g_bad; }
	FKey & operator=(const FKey & o) { fault_point(6); if(o.magic != 0x4E7u || magic != 0x4E7u) ++g_bad; v = o.v; return *this; }
	~FKey() { if(magic != 0x4E7u) ++g_bad; magic = 0xDEADu; }
	bool operator<(const FKey & o) const { fault_point(7); return v < o.v; }
};
template <typename K_, typename V_> using OrdMap = std::map<K_, V_>;
template <typename Item> using OrdList = eventpp::OrderedQueueList<Item>;
struct OPol { using Threading = VMutexOnlyThreading; template <typename K_, typename V_> using Map = OrdMap<K_, V_>; template <typename Item> using QueueList = OrdList<Item>; };
using Q = eventpp::EventQueue<FKey, void(uint32_t), OPol>;
extern "C" void harness()
{
	Q * q = new Q();
	for(int k = 1; k <= 4; k++) q->appendListener(FKey(k), [k](uint32_t x) { g_tr.add((uint32_t)k, x, 0); });
	if(vf_choose(2)) {
		// a processing call that fails: it "discards only the events that processing call had already taken out of the queue" -- an event whose
		// enqueue completed DURING the call (from its predicate) was never taken out by it and must still be delivered, exactly once.
		// keys 3 and 1 pending; processIf accepts key 1, declines key 3 (put back and merged with the new event); the first predicate call enqueues keys 2 and 4 (two, so that a merge can have moved one before a later comparison throws)
		q->enqueue(FKey(3), 30u); q->enqueue(FKey(1), 10u);
		bool enqDone = false, enqDone4 = false; int calls = 0;
		g_tr.clear();
		bool failedB = with_faults([&]() { q->processIf([&](uint32_t x) -> bool { if(calls++ == 0) { q->enqueue(FKey(2), 20u); enqDone = true; q->enqueue(FKey(4), 40u); enqDone4 = true; } return x == 10u; }); });
		if(failedB) vf_cover(COV_STRONG_OP_FAILED);
		while(q->process()) {}
		int c1 = 0, c2 = 0, c3 = 0, c4 = 0;
		for(int i = 0; i < g_tr.n; i++) { if(g_tr.e[i].id == 1u && g_tr.e[i].a == 10u) c1++; else if(g_tr.e[i].id == 2u && g_tr.e[i].a == 20u) c2++; else if(g_tr.e[i].id == 3u && g_tr.e[i].a == 30u) c3++; else if(g_tr.e[i].id == 4u && g_tr.e[i].a == 40u) c4++; else vf_assert(false, 486); }
		vf_assert(c1 <= 1 && c2 <= 1 && c3 <= 1 && c4 <= 1, 487);                   // nothing twice
		if(enqDone) vf_assert(c2 == 1, 488); if(enqDone4) vf_assert(c4 == 1, 488);                             // the event enqueued during the failed call is not lost
		if(! failedB) vf_assert(c1 == 1 && c2 == 1 && c3 == 1 && c4 == 1, 489);
		vf_assert(q->emptyQueue(), 484);
		delete q;
		vf_assert(g_bad == 0, 485);
		vf_end();
		return;
	}
	// 0..2 events pending, keys out of order
	int n0 = (int)vf_choose(3); int keys[3]; uint32_t pay[3]; int n = 0;
	if(n0 >= 1) { keys[n] = 3; pay[n] = 30u; q->enqueue(FKey(3), 30u); n++; }
	if(n0 >= 2) { keys[n] = 1; pay[n] = 10u; q->enqueue(FKey(1), 10u); n++; }
	bool failed = with_faults([&]() { q->enqueue(FKey(2), 20u); });
	if(! failed) { keys[n] = 2; pay[n] = 20u; n++; } else vf_cover(COV_STRONG_OP_FAILED);
	vf_assert(q->emptyQueue() == (n == 0), 480);                      // a failed enqueue leaves the queue exactly as it was ...
	g_tr.clear(); q->process();
	vf_assert(g_tr.n == n, 481);                                      // ... holding exactly the events it held before
	for(int i = 0; i + 1 < g_tr.n; i++) vf_assert(g_tr.e[i].id <= g_tr.e[i + 1].id, 482);    // still in comparator order
	for(int i = 0; i < n; i++) { bool found = false; for(int j = 0; j < g_tr.n; j++) if(g_tr.e[j].id == (uint32_t)keys[i] && g_tr.e[j].a == pay[i]) found = true; vf_assert(found, 483); }
	vf_assert(q->emptyQueue(), 484);
	delete q;
	vf_assert(g_bad == 0, 485);
	vf_end();
}

#elif CLASS == 1
// ----------------------------------------------------------------------------------------------- event queue
struct QCb { uint32_t id; explicit QCb(uint32_t i) : id(i) {} void operator()(const TPay & p) const { if(p.magic != 0xFA1u) ++g_bad; g_tr.add(id, p.v, 0); fault_point(2); } };
#ifdef HETERQ
// the heterogeneous queue keeps its events in type-erased slots (BufferedUnion) with their own construction / destruction bookkeeping
struct Pol { using Threading = VMutexOnlyThreading; };
using Q = eventpp::HeterEventQueue<int, eventpp::HeterTuple<void(const TPay &), void(uint32_t)>, Pol>;
#define NQOPS 4
#define NPFORMS 2
#else
struct Pol { using Threading = VMutexOnlyThreading; using Callback = QCb; };
using Q = eventpp::EventQueue<int, void(const TPay &), Pol>;
#define NQOPS 6
#define NPFORMS 4
#endif
extern "C" void harness()
{
	Q * q = new Q();
	q->appendListener(1, QCb(1)); q->appendListener(1, QCb(2));
	uint32_t pend[6]; int np = 0;
	int n0 = (int)vf_choose(4);                 // 0..3 events pending
	for(int i = 0; i < n0; i++) { q->enqueue(1, TPay(100u + (uint32_t)i)); pend[np++] = 100u + (uint32_t)i; }
	if(n0 >= 1 && vf_choose(2)) { q->processOne(); for(int i = 1; i < np; i++) pend[i - 1] = pend[i]; np--; }    // a recycled slot
	vf_assert(g_live_pay == np, 430);
	unsigned op = vf_choose(NQOPS);
	if(op == 0) {                               // enqueue: strong guarantee
		bool failed = with_faults([&]() { q->enqueue(1, TPay(200u)); });
		if(! failed) pend[np++] = 200u; else vf_cover(COV_STRONG_OP_FAILED);
	}
	else if(op == 1 || op == 2) {               // process / processOne with a throwing listener: only the events taken out are gone
		int taken = op == 1 ? np : (np > 0 ? 1 : 0);
		g_tr.clear();
		bool failed = with_faults([&]() { if(op == 1) q->process(); else q->processOne(); });
		if(failed) vf_cover(COV_FAULT_IN_PROCESS);
		// whatever was dispatched was dispatched in order, to both listeners unless the first threw
		int k = 0;
		for(int e = 0; e < taken && k < g_tr.n; e++) { vf_assert(g_tr.e[k].a == pend[e] && g_tr.e[k].id == 1, 431); k++; if(k < g_tr.n) { vf_assert(g_tr.e[k].a == pend[e] && g_tr.e[k].id == 2, 432); k++; } }
		if(! failed) vf_assert(g_tr.n == 2 * taken, 433);
		for(int i = taken; i < np; i++) pend[i - taken] = pend[i];
		np -= taken;
	}
	else if(op == 3) {                          // processIf / processUntil with a throwing predicate, taking the arguments or taking none
		int cnt = 0;
		unsigned form = vf_choose(NPFORMS);
		bool failed = with_faults([&]() {
			if(form == 0) q->processIf([&](const TPay & p) { cnt++; fault_point(5); return (p.v & 1u) == 0; });
			else if(form == 1) q->processIf([&]() { cnt++; fault_point(5); return true; });
#ifndef HETERQ
			else if(form == 2) q->processUntil([&](const TPay & p) { cnt++; fault_point(5); return (p.v & 1u) != 0; });
			else q->processUntil([&]() { cnt++; fault_point(5); return cnt > 1; });
#endif
		});
		if(failed) { np = 0; vf_cover(COV_FAULT_IN_PROCESS); }         // the batch the call had taken is discarded
		else if(form == 0) { int k = 0; for(int i = 0; i < np; i++) if((pend[i] & 1u) != 0) pend[k++] = pend[i]; np = k; }
#ifdef HETERQ
		else if(form == 1) { vf_assert(cnt == 0, 437); }                // a predicate taking no arguments is callable with no listed prototype: nothing is examined
#else
		else if(form == 1) np = 0;                                      // accepts everything
#endif
		else if(form == 2) { int k = 0; while(k < np && (pend[k] & 1u) == 0) k++; for(int i = k; i < np; i++) pend[i - k] = pend[i]; np -= k; }   // dispatches until the first odd one
		else { int k = np > 0 ? 1 : 0; for(int i = k; i < np; i++) pend[i - k] = pend[i]; np -= k; }          // dispatches the first, stops at the second
	}
#ifndef HETERQ
	else if(op == 4) {                          // peekEvent copies the payload: strong guarantee
		Q::QueuedEvent qe;
		bool r = false;
		bool failed = with_faults([&]() { r = q->peekEvent(&qe); });
		if(! failed) vf_assert(r == (np > 0), 434);
		if(! failed && r) vf_assert(std::get<0>(qe.arguments).v == pend[0], 435);
	}
	else {                                      // takeEvent
		Q::QueuedEvent qe;
		bool r = false;
		bool failed = with_faults([&]() { r = q->takeEvent(&qe); });
		if(failed) { if(np > 0) { for(int i = 1; i < np; i++) pend[i - 1] = pend[i]; np--; } }   // the event had been taken out
		else if(r) { vf_assert(std::get<0>(qe.arguments).v == pend[0], 436); for(int i = 1; i < np; i++) pend[i - 1] = pend[i]; np--; }
	}
#endif
	// emptiness reporting stays correct, nothing leaked, the queue stays fully usable
	vf_assert(q->emptyQueue() == (np == 0), 440);
	vf_assert(g_live_pay == np, 441);
	q->enqueue(1, TPay(300u)); pend[np++] = 300u;
	g_tr.clear();
	bool r = q->process();
	vf_assert(r, 442);
	vf_assert(g_tr.n == 2 * np, 443);
	for(int e = 0; e < np && 2 * e < g_tr.n; e++) vf_assert(g_tr.e[2 * e].a == pend[e], 444);
	vf_assert(q->emptyQueue(), 445);
	vf_assert(g_live_pay == 0, 446);
	delete q;
	vf_assert(g_live_pay == 0 && g_bad == 0, 447);
	vf_end();
}

#else
// ----------------------------------------------------------------------------------------------- dispatcher + removers
#ifdef FKEY
// a user Event type whose copies and comparisons can throw (kinds 6 and 7); ordered map so that no hash is needed
struct FKey {
	int v; uint32_t magic;
	explicit FKey(int x) : v(x), magic(0x4E7u) {}
	FKey(const FKey & o) : v(o.v), magic(0x4E7u) { fault_point(6); if(o.magic != 0x4E7u) ++g_bad; }
	FKey & operator=(const FKey & o) { fault_point(6); if(o.magic != 0x4E7u || magic != 0x4E7u) ++g_bad; v = o.v; return *this; }
	~FKey() { if(magic != 0x4E7u) ++g_bad; magic = 0xDEADu; }
	bool operator<(const FKey & o) const { fault_point(7); return v < o.v; }
};
template <typename K_, typename V_> using OrdMap = std::map<K_, V_>;
struct Pol { using Threading = VMutexOnlyThreading; template <typename K_, typename V_> using Map = OrdMap<K_, V_>; };
using D = eventpp::EventDispatcher<FKey, void(uint32_t), Pol>;
#define EVK(x) FKey(x)
#else
struct Pol { using Threading = VMutexOnlyThreading; };
using D = eventpp::EventDispatcher<int, void(uint32_t), Pol>;
#define EVK(x) (x)
#endif
static int count_listeners(D & d) { int n = 0; d.forEach(EVK(1), [&](const D::Callback &) { n++; }); return n; }
extern "C" void harness()
{
	D * d = new D();
	TCb base(1);
	D::Handle hbase = d->appendListener(EVK(1), [base](uint32_t a) { base(a); });
	int n = 1;
	unsigned op = vf_choose(9);
	unsigned how = op <= 1 ? vf_choose(3) : 0;  // registered through append / prepend / insert-before
	if(op == 0) {                               // add a listener: strong guarantee
		TCb cb(2);
		bool failed = with_faults([&]() {
			if(how == 0) d->appendListener(EVK(1), [cb](uint32_t a) { cb(a); }); else if(how == 1) d->prependListener(EVK(1), [cb](uint32_t a) { cb(a); }); else d->insertListener(EVK(1), [cb](uint32_t a) { cb(a); }, hbase); });
		if(! failed) n++; else vf_cover(COV_STRONG_OP_FAILED);
	}
	else if(op == 1) {                          // add a listener of a NEW event: the map grows
		TCb cb(2);
		bool failed = with_faults([&]() {
			if(how == 0) d->appendListener(EVK(2), [cb](uint32_t a) { cb(a); }); else if(how == 1) d->prependListener(EVK(2), [cb](uint32_t a) { cb(a); }); else d->insertListener(EVK(2), [cb](uint32_t a) { cb(a); }, D::Handle()); });
		int n2 = 0; d->forEach(EVK(2), [&](const D::Callback &) { n2++; });
		vf_assert(n2 == (failed ? 0 : 1), 450);
	}
	else if(op == 2) {                          // through a ScopedRemover
		eventpp::ScopedRemover<D> * r = new eventpp::ScopedRemover<D>(*d);
		TCb cb(3);
		bool failed = with_faults([&]() { r->appendListener(EVK(1), [cb](uint32_t a) { cb(a); }); });
		vf_assert(count_listeners(*d) == n + (failed ? 0 : 1), 451);      // a failed add leaves the dispatcher exactly as it was
		delete r;
		vf_assert(count_listeners(*d) == n, 452);                         // and whatever was added is removed with the remover
	}
	else if(op == 3) {                          // through a CounterRemover
		eventpp::CounterRemover<D> r(*d);
		TCb cb(4);
		bool failed = with_faults([&]() { r.appendListener(EVK(1), [cb](uint32_t a) { cb(a); }, 2); });
		vf_assert(count_listeners(*d) == n + (failed ? 0 : 1), 453);
		if(! failed) n++;
	}
	else if(op == 4) {                          // through a ConditionalRemover
		eventpp::ConditionalRemover<D> r(*d);
		TCb cb(5);
		bool failed = with_faults([&]() { r.appendListener(EVK(1), [cb](uint32_t a) { cb(a); }, []() { return false; }); });
		vf_assert(count_listeners(*d) == n + (failed ? 0 : 1), 454);
		if(! failed) n++;
	}
	else if(op == 6) {                          // remove a listener through the ScopedRemover that added it: strong guarantee, and never orphaned
		eventpp::ScopedRemover<D> * r = new eventpp::ScopedRemover<D>(*d);
		TCb cb(6);
		D::Handle h = r->appendListener(EVK(1), [cb](uint32_t a) { cb(a); });
		vf_assert(count_listeners(*d) == n + 1, 460);
		bool res = false;
		bool failed = with_faults([&]() { res = r->removeListener(EVK(1), h); });
		if(failed) { vf_assert(count_listeners(*d) == n + 1, 461); vf_cover(COV_STRONG_OP_FAILED); }      // a failed removal leaves the listener attached ...
		else { vf_assert(res, 462); vf_assert(count_listeners(*d) == n, 463); }
		h = D::Handle();
		delete r;
		vf_assert(count_listeners(*d) == n, 464);                         // ... and still the remover's responsibility: it does not outlive the remover
	}
	else if(op == 7) {                          // reset / re-target a remover that holds two listeners: what a failed call leaves attached is still removed with the remover
		eventpp::ScopedRemover<D> * r = new eventpp::ScopedRemover<D>(*d);
		TCb cb(7), cb2(8);
		r->appendListener(EVK(1), [cb](uint32_t a) { cb(a); });
		r->prependListener(EVK(1), [cb2](uint32_t a) { cb2(a); });
		unsigned form = vf_choose(2);
		D * d2 = new D();                       // re-targeting means another dispatcher (setDispatcher with the current one keeps everything)
		bool failed = with_faults([&]() { if(form == 0) r->reset(); else r->setDispatcher(*d2); });
		if(! failed) vf_assert(count_listeners(*d) == n, 465);
		else vf_assert(count_listeners(*d) <= n + 2, 466);
		if(failed) r->setDispatcher(*d);        // (a no-op unless the failed call had already switched)
		delete r;
		vf_assert(count_listeners(*d) == n, 467);
		delete d2;
	}
	else if(op == 8) {                          // C16 x C09: a counted listener whose invocation throws has still been invoked: count 2 = the first two triggers, never a third
		{ eventpp::CounterRemover<D> r(*d); TCb cb(9); r.prependListener(EVK(1), [cb](uint32_t a) { cb(a); }, 2); }
		int calls = 0;
		for(int t = 0; t < 4; t++) {
			g_tr.clear();
			bool failed = false;
			if(t < 2) failed = with_faults([&]() { d->dispatch(EVK(1), 20u + t); }); else d->dispatch(EVK(1), 20u + t);
			int c = 0; for(int i = 0; i < g_tr.n; i++) if(g_tr.e[i].id == 9) c++;
			// it is the first listener, so every trigger that gets as far as invoking listeners reaches it while it is attached
			// (a dispatch that failed before any listener ran -- the event lookup threw -- triggered nothing)
			if(failed && g_tr.n == 0) vf_assert(c == 0, 479);
			else vf_assert(c == (calls < 2 ? 1 : 0), 468);
			calls += c;
		}
		vf_assert(calls == 2, 469);
	}
	else {                                      // dispatch with a throwing listener, then copy the dispatcher under faults
		g_tr.clear();
		with_faults([&]() { d->dispatch(EVK(1), 7u); });
		D * c = nullptr;
		bool failed = with_faults([&]() { c = new D(*d); });
		if(! failed) { vf_assert(count_listeners(*c) == n, 455); delete c; } else vf_assert(c == nullptr, 456);
	}
	vf_assert(count_listeners(*d) == n, 457);
	g_tr.clear(); d->dispatch(EVK(1), 9u);
	vf_assert(g_tr.n == n, 458);                 // stays fully usable
	hbase = D::Handle();
	delete d;
	vf_assert(g_bad == 0, 459);
	vf_end();
}
#endif
