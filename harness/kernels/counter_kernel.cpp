// E-bmc leaf kernel for C16: the real CounterRemover<...>::Wrapper::operator() (decrement-and-test, removal request, listener call),
// instantiated with a stub dispatcher whose removeListener only records the request, and with its Data object on the stack
// (aliasing shared_ptr: no control block) so that the lowered IR has no heap.
#include <memory>
#include <functional>
#define private public
#include <eventpp/eventdispatcher.h>
#include <eventpp/utilities/counterremover.h>
#undef private
#include <stdint.h>

struct StubDispatcher : public eventpp::TagEventDispatcher {
	using Event = int; using Handle = int; using Callback = void (*)(int);
	int removeRequests = 0; bool attached = true;
	bool removeListener(const Event &, const Handle &) { removeRequests++; bool was = attached; attached = false; return was; }
};
struct Listener { int * calls; void operator()(int) const { ++*calls; } };
using CR = eventpp::CounterRemover<StubDispatcher>;
using W = CR::Wrapper<Listener>;

// runs `triggers` triggers (the stub "dispatcher" calls the wrapper only while it is attached); returns calls | removeRequests << 8 | attached << 16
extern "C" __attribute__((noinline)) uint32_t k_counter(int32_t n, uint32_t triggers)
{
	StubDispatcher d; int calls = 0;
	W::Data data { n, d, 0, Listener{&calls}, 0 };
	W w; w.data = std::shared_ptr<W::Data>(std::shared_ptr<W::Data>(), &data);
	for(uint32_t i = 0; i < triggers; i++) if(d.attached) w(7);
	return (uint32_t)calls | ((uint32_t)d.removeRequests << 8) | ((uint32_t)d.attached << 16);
}
