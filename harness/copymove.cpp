// copymove.cpp -- C10: histories of copy / move / assign / swap interleaved with listener changes, invocations and
// queue operations over up to 3 objects of one class. New objects are placement-constructed into storage that
// previously held arbitrary bytes (vf_havoc); generation counters of CallbackLists are pushed apart symbolically.
//
// OBJ: 0 CallbackList  1 EventDispatcher  2 EventQueue  3 HeterCallbackList  4 HeterEventDispatcher  5 HeterEventQueue
#include "common.h"

#ifndef KK
#define KK 3
#endif
#ifndef OBJ
#define OBJ 0
#endif
#define NO 3
#define MAXL (KK + 3)
#define EV 5

static Trace g_tr;
struct Cb;
static void adder_hook();
static void copier_hook();
static void assign_hook();
#ifdef TRACKED
// C08: every callback instance is counted; the live instances must be exactly the listeners of the live objects
static int g_live_cb = 0, g_bad_cb = 0;
struct Cb {
	uint32_t id; uint32_t magic;
	explicit Cb(uint32_t i) : id(i), magic(0xC0FFEEu) { ++g_live_cb; }
	Cb(const Cb & o) : id(o.id), magic(0xC0FFEEu) { if(o.magic != 0xC0FFEEu) ++g_bad_cb; ++g_live_cb; }
	Cb & operator=(const Cb & o) { if(o.magic != 0xC0FFEEu || magic != 0xC0FFEEu) ++g_bad_cb; id = o.id; return *this; }
	~Cb() { if(magic != 0xC0FFEEu) ++g_bad_cb; magic = 0xDEADu; --g_live_cb; }
	void operator()(uint32_t a) const { if(magic != 0xC0FFEEu) ++g_bad_cb; g_tr.add(id, a, 0); if(id == 7777u) adder_hook(); if(id == 6666u) copier_hook(); if(id == 5555u) assign_hook(); }
	bool operator==(const Cb & o) const { return id == o.id; }
};
#else
struct Cb {
	uint32_t id;
	explicit Cb(uint32_t i) : id(i) {}
	void operator()(uint32_t a) const { g_tr.add(id, a, 0); if(id == 7777u) adder_hook(); if(id == 6666u) copier_hook(); if(id == 5555u) assign_hook(); }
	bool operator==(const Cb & o) const { return id == o.id; }
};
#endif
#ifndef THREADING
#define THREADING VThreading
#define INSTRUMENTED_CV 1
#endif
#ifdef FILTERS
// C10 "same listeners and filters in the same order": dispatcher / queue with MixinFilter; filters observe and rewrite the argument
#include "eventpp/mixins/mixinfilter.h"
struct Pol { using Threading = THREADING; using Callback = Cb; using Mixins = eventpp::MixinList<eventpp::MixinFilter>; };
#else
struct Pol { using Threading = THREADING; using Callback = Cb; };
#endif
struct HPol { using Threading = THREADING; };
using HT = eventpp::HeterTuple<void(uint32_t), void(uint32_t, uint32_t)>;

#if OBJ == 0
using T = eventpp::CallbackList<void(uint32_t), Pol>;
#elif OBJ == 1
using T = eventpp::EventDispatcher<int, void(uint32_t), Pol>;
#elif OBJ == 2
using T = eventpp::EventQueue<int, void(uint32_t), Pol>;
#elif OBJ == 3
using T = eventpp::HeterCallbackList<HT, HPol>;
#elif OBJ == 4
using T = eventpp::HeterEventDispatcher<int, HT, HPol>;
#else
using T = eventpp::HeterEventQueue<int, HT, HPol>;
#endif
#define IS_QUEUE (OBJ == 2 || OBJ == 5)
#define IS_HETER (OBJ >= 3)

struct Model {
	bool alive[NO];
	uint32_t ids[NO][MAXL]; int n[NO];
	uint32_t pend[NO][MAXL]; int np[NO];      // queues: pending payloads
	uint32_t fids[NO][MAXL]; int nf[NO];      // FILTERS: filters in the order they were added
};
struct G { alignas(16) unsigned char store[NO][sizeof(T)]; Model m; uint32_t nextid; T::Handle h[2]; int hown[2]; uint32_t hid[2]; };
static G * g;
static T * obj(int i) { return reinterpret_cast<T *>(g->store[i]); }

enum { COV_COPY_CTOR = 0, COV_MOVE_CTOR, COV_COPY_ASSIGN, COV_MOVE_ASSIGN, COV_SWAP, COV_SELF_ASSIGN, COV_SELF_SWAP, COV_COPY_THEN_DIVERGE, COV_QUEUE_COPY_PENDING, COV_COPY_IN_LISTENER, COV_COPY_UNDER_DQN, COV_FILTERS_DIVERGE, COV_DQN_ASSIGN, COV_ASSIGN_INSIDE, COV_DQN_COPY, COV_N };

#if OBJ == 0
static T * g_adder_target = nullptr;
static void adder_hook() { if(g_adder_target) g_adder_target->append(Cb(7778u)); }
#else
static void adder_hook() {}
#endif

static int g_copy_src = -1, g_copy_dst = -1;
static void copier_hook();

static T::Handle add(int i, uint32_t id)
{
#if OBJ == 0
	return obj(i)->append(Cb(id));
#elif OBJ == 1 || OBJ == 2
	return obj(i)->appendListener(EV, Cb(id));
#elif OBJ == 3
	if(id & 1) return obj(i)->append([id](uint32_t a, uint32_t b) { g_tr.add(id, a, b); });
	else return obj(i)->append([id](uint32_t a) { g_tr.add(id, a, 0); if(id == 5556u) assign_hook(); });
#else
	if(id & 1) return obj(i)->appendListener(EV, [id](uint32_t a, uint32_t b) { g_tr.add(id, a, b); });
	else return obj(i)->appendListener(EV, [id](uint32_t a) { g_tr.add(id, a, 0); if(id == 5556u) assign_hook(); });
#endif
}
static T::Handle prepend(int i, uint32_t id)
{
#if OBJ == 0
	return obj(i)->prepend(Cb(id));
#elif OBJ == 1 || OBJ == 2
	return obj(i)->prependListener(EV, Cb(id));
#elif OBJ == 3
	if(id & 1) return obj(i)->prepend([id](uint32_t a, uint32_t b) { g_tr.add(id, a, b); });
	else return obj(i)->prepend([id](uint32_t a) { g_tr.add(id, a, 0); });
#else
	if(id & 1) return obj(i)->prependListener(EV, [id](uint32_t a, uint32_t b) { g_tr.add(id, a, b); });
	else return obj(i)->prependListener(EV, [id](uint32_t a) { g_tr.add(id, a, 0); });
#endif
}

// invoke object i and compare with the model; which == 0: prototype void(uint32_t), 1: void(uint32_t,uint32_t) (heter only)
static void check_invoke(int i, int which)
{
	Model & m = g->m;
	uint32_t a = vf_nondet_u32(), b = vf_nondet_u32();
	g_tr.clear();
#if OBJ == 0
	(*obj(i))(a);
#elif OBJ == 1 || OBJ == 2
	obj(i)->dispatch(EV, a);
#elif OBJ == 3
	if(which) (*obj(i))(a, b); else (*obj(i))(a);
#else
	if(which) obj(i)->dispatch(EV, a, b); else obj(i)->dispatch(EV, a);
#endif
	int k = 0;
#ifdef FILTERS
	// the filters run first, in the order they were added, each seeing the argument as its predecessors left it; the listeners see the result
	for(int j = 0; j < m.nf[i]; j++) {
		vf_assert(k < g_tr.n && g_tr.e[k].id == 1000u + m.fids[i][j] && g_tr.e[k].a == a, 140);
		if(k < g_tr.n) vf_obs(1 + i, g_tr.e[k].id);
		a += m.fids[i][j]; k++;
	}
#endif
	for(int j = 0; j < m.n[i]; j++) {
#if IS_HETER
		if((int)(m.ids[i][j] & 1) != which) continue;
#endif
		vf_assert(k < g_tr.n && g_tr.e[k].id == m.ids[i][j], 120);
		if(k < g_tr.n) { vf_assert(g_tr.e[k].a == a, 121); if(which) vf_assert(g_tr.e[k].b == b, 122); vf_obs(1 + i, g_tr.e[k].id); }
		k++;
	}
	vf_assert(g_tr.n == k, 123);
}

static bool handle_alive(const T::Handle & h)
{
#if IS_HETER
	return ! h.homoHandle.expired();
#else
	return ! h.expired();
#endif
}

static void observe()
{
	Model & m = g->m;
	// the handles of the two initial listeners stay valid and follow their listeners through moves and swaps;
	// copy-assignment from itself and swap with itself change nothing
	for(int k = 0; k < 2; k++) {
		if(g->hown[k] >= 0) {
			vf_assert(handle_alive(g->h[k]), 134);
#if OBJ == 0
			vf_assert(obj(g->hown[k])->ownsHandle(g->h[k]), 135);
#elif OBJ == 1 || OBJ == 2
			vf_assert(obj(g->hown[k])->ownsHandle(EV, g->h[k]), 135);
#endif
		}
	}
	for(int i = 0; i < NO; i++) {
		if(! m.alive[i]) continue;
		check_invoke(i, 0);
#if IS_HETER
		check_invoke(i, 1);
#endif
#if OBJ == 0
		vf_assert(obj(i)->empty() == (m.n[i] == 0), 124);
#endif
#if IS_QUEUE
		vf_assert(obj(i)->emptyQueue() == (m.np[i] == 0), 125);
		// waiting with a zero timeout reports whether something is pending (notification is enabled)
#ifdef INSTRUMENTED_CV
		vf_assert(obj(i)->waitFor(std::chrono::milliseconds(0)) == (m.np[i] != 0), 126);
#endif
#endif
	}
}

static void destroy(int i) { obj(i)->~T(); g->m.alive[i] = false; g->m.n[i] = 0; g->m.np[i] = 0; g->m.nf[i] = 0; }
static int free_slot() { for(int i = 0; i < NO; i++) if(! g->m.alive[i]) return i; return -1; }
static void copy_model(int from, int to, bool with_pending)
{
	Model & m = g->m;
	m.n[to] = m.n[from]; for(int k = 0; k < m.n[from]; k++) m.ids[to][k] = m.ids[from][k];
	m.nf[to] = m.nf[from]; for(int k = 0; k < m.nf[from]; k++) m.fids[to][k] = m.fids[from][k];
	if(with_pending) { m.np[to] = m.np[from]; for(int k = 0; k < m.np[from]; k++) m.pend[to][k] = m.pend[from][k]; }
}

static void copier_hook()
{
	// copy-construct the object from inside one of its own listeners (for queues: while process() is running)
	if(g_copy_src >= 0 && g_copy_dst >= 0) {
		vf_havoc(g->store[g_copy_dst], sizeof(T));
		new (g->store[g_copy_dst]) T(*obj(g_copy_src));
		g_copy_src = -1;
	}
}

// the object is replaced (copy-assigned from / swapped with another object) from inside one of its own listeners, while its invocation runs
static int g_asg_dst = -1, g_asg_src = -1, g_asg_how = 0;
static void assign_hook()
{
	if(g_asg_dst < 0) return;
	int d = g_asg_dst, s2 = g_asg_src; g_asg_dst = -1;
	if(g_asg_how == 0) *obj(d) = *obj(s2);
	else {
#if IS_QUEUE && OBJ == 5
		obj(d)->swap(*obj(s2));
#else
		using std::swap; swap(*obj(d), *obj(s2));
#endif
	}
}
#if IS_HETER
#define ASG_ID 5556u
#else
#define ASG_ID 5555u
#endif

extern "C" void harness()
{
	g = new G(); Model & m = g->m; g->nextid = 10;
	vf_havoc(g->store[0], sizeof(T));
	new (g->store[0]) T(); m.alive[0] = true;
#if OBJ == 0
	{	// push the source's generation counter to an arbitrary position (not at the wrap unless WRAPC: that is C19)
		uint32_t c0 = vf_nondet_u32();
#ifdef WRAPC
		vf_assume(c0 >= 0xfffffff8u);      // C19: within 8 of the wrap, so that additions, copies into it and assignments to it straddle the wrap
#else
		vf_assume(c0 < 0xfffffff0u);
#endif
#ifdef INSTRUMENTED_CV
		obj(0)->currentCounter.value = c0;
#else
		obj(0)->currentCounter = c0;
#endif
	}
#endif
	g->hid[0] = g->nextid; g->hown[0] = 0; g->h[0] = add(0, g->nextid); m.ids[0][m.n[0]++] = g->nextid++;
#if IS_HETER
	g->nextid++;      // both initial listeners get even ids = prototype void(uint32_t); the other prototype's slot exists but is empty
#endif
	g->hid[1] = g->nextid; g->hown[1] = 0; g->h[1] = prepend(0, g->nextid); for(int k = m.n[0]; k > 0; k--) m.ids[0][k] = m.ids[0][k - 1]; m.ids[0][0] = g->nextid++; m.n[0]++;

#ifdef FILTERS
	{ uint32_t f = g->nextid++; obj(0)->appendFilter([f](uint32_t & a) { g_tr.add(1000u + f, a, 0); a += f; return true; }); m.fids[0][m.nf[0]++] = f; }
#endif
	observe();      // also instantiates, empty, the per-prototype sub-list of the prototype nobody listens to yet (heterogeneous classes)
	for(int step = 0; step < KK; step++) {
		unsigned nkinds = (OBJ == 2 ? 11 : (IS_QUEUE ? 9 : 7));
#ifdef FILTERS
		const unsigned nk = nkinds; nkinds += 3;
#endif
#if OBJ == 2
		const unsigned kDqn = nkinds++;
#endif
#ifdef ASSIGN_INSIDE
		const unsigned kAsg = nkinds++;
#endif
		unsigned kind = vf_choose(nkinds);
		unsigned na = 0; int al[NO];
		for(int i = 0; i < NO; i++) if(m.alive[i]) al[na++] = i;
		int i = al[vf_choose(na)];
		if(kind == 0) { if(m.n[i] < MAXL) { add(i, g->nextid); m.ids[i][m.n[i]++] = g->nextid++; } }
#ifdef ASSIGN_INSIDE
		else if(kind == kAsg) {           // object i is copy-assigned from / swapped with object j by one of i's own listeners while i is being invoked:
			// nothing is demanded of WHICH remaining callbacks that invocation still calls; it must not touch freed memory, and once it has returned
			// both objects hold exactly what the same assignment / swap would have produced outside an invocation
			int j = al[vf_choose(na)];
			if(j != i && m.n[i] < MAXL) {
				add(i, ASG_ID); m.ids[i][m.n[i]++] = ASG_ID;
				g_asg_dst = i; g_asg_src = j; g_asg_how = (int)vf_choose(2);
				int how = g_asg_how;
				uint32_t a = vf_nondet_u32();
#if OBJ == 0
				(*obj(i))(a);
#elif OBJ == 1 || OBJ == 2
				obj(i)->dispatch(EV, a);
#elif OBJ == 3
				(*obj(i))(a);
#else
				obj(i)->dispatch(EV, a);
#endif
				vf_assert(g_asg_dst == -1, 143);
				if(how == 0) { for(int k = 0; k < 2; k++) if(g->hown[k] == i) g->hown[k] = -1; copy_model(j, i, false); }
				else {
					uint32_t tmp[MAXL]; int tn = m.n[i];
					for(int k = 0; k < tn; k++) tmp[k] = m.ids[i][k];
					m.n[i] = m.n[j]; for(int k = 0; k < m.n[j]; k++) m.ids[i][k] = m.ids[j][k];
					m.n[j] = tn; for(int k = 0; k < tn; k++) m.ids[j][k] = tmp[k];
					tn = m.nf[i]; for(int k = 0; k < tn; k++) tmp[k] = m.fids[i][k];
					m.nf[i] = m.nf[j]; for(int k = 0; k < m.nf[j]; k++) m.fids[i][k] = m.fids[j][k];
					m.nf[j] = tn; for(int k = 0; k < tn; k++) m.fids[j][k] = tmp[k];
					for(int k = 0; k < 2; k++) { if(g->hown[k] == i) g->hown[k] = j; else if(g->hown[k] == j) g->hown[k] = i; }
				}
				vf_cover(COV_ASSIGN_INSIDE);
			}
		}
#endif
#if OBJ == 2
		else if(kind == kDqn) {           // DisableQueueNotify objects used as values: two guards on the queue, one assigned onto the other, both destroyed:
			// no DisableQueueNotify object is alive afterwards, so notification is enabled again (observe(): waitFor(0) reports pending events)
			unsigned how = vf_choose(3);
			if(how == 0) {
				T::DisableQueueNotify g1(obj(i));
				{ T::DisableQueueNotify g2(obj(i)); g1 = std::move(g2); }
			}
#ifdef INSTRUMENTED_CV
			else if(how == 1) {           // a COPY of a guard is a DisableQueueNotify object too: while either is alive a wait does not return, once both are gone it does
				T::DisableQueueNotify * g1 = new T::DisableQueueNotify(obj(i));
				{
					T::DisableQueueNotify g2(*g1);
					unsigned order = vf_choose(2);
					if(order == 0) { delete g1; g1 = nullptr; }                    // the original goes first: the copy still disables
					vf_assert(! obj(i)->waitFor(std::chrono::milliseconds(0)), 127);
				}
				if(g1) { vf_assert(! obj(i)->waitFor(std::chrono::milliseconds(0)), 127); delete g1; }
				vf_cover(COV_DQN_COPY);
			}
			else {                        // a guard of queue i is assigned the guard of queue j: from then on both disable queue j, nobody disables queue i
				int j = al[vf_choose(na)];
				T::DisableQueueNotify g1(obj(i));
				{
					T::DisableQueueNotify g2(obj(j));
					g1 = g2;
					if(j != i) vf_assert(obj(i)->waitFor(std::chrono::milliseconds(0)) == (m.np[i] != 0), 128);
					vf_assert(! obj(j)->waitFor(std::chrono::milliseconds(0)), 127);
				}
				vf_assert(! obj(j)->waitFor(std::chrono::milliseconds(0)), 127);
			}
#endif
			vf_cover(COV_DQN_ASSIGN);
		}
#endif
#ifdef FILTERS
		else if(kind == nk) {             // add a filter (to a copy or an original: later changes to either never affect the other)
			if(m.nf[i] < MAXL) { uint32_t f = g->nextid++; obj(i)->appendFilter([f](uint32_t & a) { g_tr.add(1000u + f, a, 0); a += f; return true; }); m.fids[i][m.nf[i]++] = f; }
		}
		else if(kind == nk + 2) {         // a freshly built object that never had a listener or a filter (then swapped with / assigned from the others)
			int j = free_slot();
			if(j >= 0) { vf_havoc(g->store[j], sizeof(T)); new (g->store[j]) T(); m.alive[j] = true; m.n[j] = 0; m.nf[j] = 0; m.np[j] = 0; }
		}
		else if(kind == nk + 1) {         // remove the first filter ... there is no handle in a copy: add one and remove it again through its handle, the others stay
			if(m.nf[i] < MAXL) { auto fh = obj(i)->appendFilter([](uint32_t &) { return false; }); bool r = obj(i)->removeFilter(fh); vf_assert(r, 141); }
		}
#endif
		else if(kind == 1) {
#if ! IS_HETER
			// remove the first listener of object i (through the helper: copies have no handles of their own)
			if(m.n[i] > 0) {
				uint32_t id = m.ids[i][0];
#if OBJ == 0
				bool r = eventpp::removeListener(*obj(i), Cb(id));
#else
				bool r = eventpp::removeListener(*obj(i), EV, Cb(id));
#endif
				vf_assert(r, 127);
				for(int k = 0; k < 2; k++) if(g->hown[k] == i && g->hid[k] == id) g->hown[k] = -1;
				for(int k = 1; k < m.n[i]; k++) m.ids[i][k - 1] = m.ids[i][k];
				m.n[i]--;
			}
#else
			if(m.n[i] < MAXL) { prepend(i, g->nextid); for(int k = m.n[i]; k > 0; k--) m.ids[i][k] = m.ids[i][k - 1]; m.ids[i][0] = g->nextid++; m.n[i]++; }
#endif
		}
		else if(kind == 2) {              // copy-construct i -> new
			int j = free_slot();
			if(j >= 0) {
				vf_havoc(g->store[j], sizeof(T));
				new (g->store[j]) T(*obj(i)); m.alive[j] = true; copy_model(i, j, false); m.np[j] = 0;
				vf_cover(COV_COPY_CTOR);
				if(IS_QUEUE && m.np[i] > 0) vf_cover(COV_QUEUE_COPY_PENDING);
			}
		}
		else if(kind == 3) {              // move-construct i -> new
			int j = free_slot();
			if(j >= 0) {
				vf_havoc(g->store[j], sizeof(T));
				new (g->store[j]) T(std::move(*obj(i))); m.alive[j] = true; copy_model(i, j, false); m.np[j] = 0;
				for(int k = 0; k < 2; k++) if(g->hown[k] == i) g->hown[k] = j;
				m.n[i] = 0;            // the listeners are transferred; the source stays valid (and, for queues, keeps its pending events)
				m.nf[i] = 0;
				vf_cover(COV_MOVE_CTOR);
			}
		}
		else if(kind == 4) {              // copy-assign i -> j (j may be i)
			int j = al[vf_choose(na)];
			*obj(j) = *obj(i);
			if(j != i) { for(int k = 0; k < 2; k++) if(g->hown[k] == j) g->hown[k] = -1; copy_model(i, j, false); vf_cover(COV_COPY_ASSIGN); } else vf_cover(COV_SELF_ASSIGN);
		}
		else if(kind == 5) {              // move-assign i -> j (j != i)
			int j = al[vf_choose(na)];
			if(j != i) { *obj(j) = std::move(*obj(i)); for(int k = 0; k < 2; k++) { if(g->hown[k] == j) g->hown[k] = -1; else if(g->hown[k] == i) g->hown[k] = j; } copy_model(i, j, false); m.n[i] = 0; m.nf[i] = 0; vf_cover(COV_MOVE_ASSIGN); }
		}
		else if(kind == 6) {              // swap(i, j) (j may be i)
			int j = al[vf_choose(na)];
#if IS_QUEUE && OBJ == 5
			obj(i)->swap(*obj(j));
#else
			{ using std::swap; swap(*obj(i), *obj(j)); }
#endif
			if(j != i) {
				uint32_t tmp[MAXL]; int tn = m.n[i];
				for(int k = 0; k < tn; k++) tmp[k] = m.ids[i][k];
				m.n[i] = m.n[j]; for(int k = 0; k < m.n[j]; k++) m.ids[i][k] = m.ids[j][k];
				m.n[j] = tn; for(int k = 0; k < tn; k++) m.ids[j][k] = tmp[k];
				tn = m.nf[i]; for(int k = 0; k < tn; k++) tmp[k] = m.fids[i][k];
				m.nf[i] = m.nf[j]; for(int k = 0; k < m.nf[j]; k++) m.fids[i][k] = m.fids[j][k];
				m.nf[j] = tn; for(int k = 0; k < tn; k++) m.fids[j][k] = tmp[k];
				for(int k = 0; k < 2; k++) { if(g->hown[k] == i) g->hown[k] = j; else if(g->hown[k] == j) g->hown[k] = i; }
				vf_cover(COV_SWAP);
			} else vf_cover(COV_SELF_SWAP);
		}
#if OBJ == 2
		else if(kind == 9) {              // copy-construct from inside a listener while process() runs
			int j = free_slot();
			if(j >= 0 && m.n[i] < MAXL && m.np[i] == 0) {
				add(i, 6666u); m.ids[i][m.n[i]++] = 6666u;
				g_copy_src = i; g_copy_dst = j;
				obj(i)->enqueue(EV, 1u); obj(i)->process();
				vf_assert(g_copy_src == -1, 136);
				m.alive[j] = true; copy_model(i, j, false); m.np[j] = 0;
				// retire the special listener from both (it would copy again otherwise)
				bool r1 = eventpp::removeListener(*obj(i), EV, Cb(6666u)), r2 = eventpp::removeListener(*obj(j), EV, Cb(6666u));
				vf_assert(r1 && r2, 137); m.n[i]--; m.n[j]--;
				vf_cover(COV_COPY_IN_LISTENER);
			}
		}
		else if(kind == 10) {             // copy-construct while a DisableQueueNotify guard is alive on the source
			int j = free_slot();
			if(j >= 0) {
				vf_havoc(g->store[j], sizeof(T));
				{ T::DisableQueueNotify guard(obj(i)); new (g->store[j]) T(*obj(i)); }
				m.alive[j] = true; copy_model(i, j, false); m.np[j] = 0;
				vf_cover(COV_COPY_UNDER_DQN);
			}
		}
#endif
#if IS_QUEUE
		else if(kind == 7) { if(m.np[i] < MAXL) { uint32_t a = vf_nondet_u32(); obj(i)->enqueue(EV, a); m.pend[i][m.np[i]++] = a; } }
		else {
			g_tr.clear();
			bool r = obj(i)->process();
			vf_assert(r == (m.np[i] > 0), 128);
			int k = 0;
			for(int e = 0; e < m.np[i]; e++) {
				uint32_t a = m.pend[i][e];
#ifdef FILTERS
				for(int j = 0; j < m.nf[i]; j++) { vf_assert(k < g_tr.n && g_tr.e[k].id == 1000u + m.fids[i][j] && g_tr.e[k].a == a, 142); a += m.fids[i][j]; k++; }
#endif
				for(int j = 0; j < m.n[i]; j++) {
#if IS_HETER
				if(m.ids[i][j] & 1) continue;
#endif
				vf_assert(k < g_tr.n && g_tr.e[k].id == m.ids[i][j] && g_tr.e[k].a == a, 129); k++;
				}
			}
			vf_assert(g_tr.n == k, 130);
			m.np[i] = 0;
		}
#endif
		for(int x = 0; x < NO; x++) for(int y = x + 1; y < NO; y++) if(m.alive[x] && m.alive[y] && m.n[x] != m.n[y]) vf_cover(COV_COPY_THEN_DIVERGE);
		for(int x = 0; x < NO; x++) for(int y = x + 1; y < NO; y++) if(m.alive[x] && m.alive[y] && m.nf[x] != m.nf[y]) vf_cover(COV_FILTERS_DIVERGE);
		observe();
#if defined(TRACKED) && ! IS_HETER
		{ int want = 0; for(int x = 0; x < NO; x++) if(m.alive[x]) want += m.n[x]; vf_assert(g_live_cb == want, 138); vf_assert(g_bad_cb == 0, 139); }   // a removed callback is released at once, in copies too
#endif
	}
#if OBJ == 0
	// the nested-invocation rule on every object obtained: a callback added during an invocation is not called by it,
	// but by the next one
	for(int i = 0; i < NO; i++) if(m.alive[i]) {
		g_adder_target = obj(i);
		obj(i)->append(Cb(7777u));
#ifdef INSTRUMENTED_CV
		const uint32_t cbefore = obj(i)->currentCounter.value;
#else
		const uint32_t cbefore = obj(i)->currentCounter.load();
#endif
		g_tr.clear(); (*obj(i))(1u);
#ifdef INSTRUMENTED_CV
		const uint32_t cafter = obj(i)->currentCounter.value;
#else
		const uint32_t cafter = obj(i)->currentCounter.load();
#endif
		if(cafter < cbefore) {
			// the counter wrapped DURING this invocation: C19 allows exactly this invocation to also call what was added during it
			vf_assert((g_tr.n == m.n[i] + 1 || (g_tr.n == m.n[i] + 2 && g_tr.e[m.n[i] + 1].id == 7778u)) && g_tr.e[m.n[i]].id == 7777u, 131);
		}
		else
		vf_assert(g_tr.n == m.n[i] + 1 && g_tr.e[m.n[i]].id == 7777u, 131);
		g_adder_target = nullptr;
		g_tr.clear(); (*obj(i))(2u);
		vf_assert(g_tr.n == m.n[i] + 2 && g_tr.e[m.n[i] + 1].id == 7778u, 132);
		bool r1 = eventpp::removeListener(*obj(i), Cb(7777u)), r2 = eventpp::removeListener(*obj(i), Cb(7778u));
		vf_assert(r1 && r2, 133);
	}
#endif
	g->h[0] = T::Handle(); g->h[1] = T::Handle();
	for(int i = 0; i < NO; i++) if(m.alive[i]) destroy(i);
	delete g; g = nullptr;
	vf_end();
}
