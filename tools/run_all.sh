#!/bin/bash
# tools/run_all.sh [tier] [ids...]  -- every check once on $VERIF_REPO (default /repo); one summary line per property, exit 1 if any is not HOLDS
cd "$(dirname "$0")/.." || exit 2
tier=${1:-quick}; shift; ids=${*:-$(seq -f 'C%02g' 1 20)}
bad=0
for id in $ids; do
  out=$(./check $id --tier $tier -j ${J:-16} 2>&1); rc=$?
  echo "$id rc=$rc $(echo "$out" | tail -1)"
  if [ $rc != 0 ]; then bad=1; echo "$out" | grep -E '^(VIOLATION|PROBLEM|KNOWN|  run=)' | cut -c1-400; fi
  echo "$out" | grep -E '^(KNOWN-FINDING|NOTE)' | cut -c1-200
done
exit $bad
