/* CBMC harness over the C translation of the lowered AnyId kernels (harness/kernels/anyid_kernel.cpp): the laws of C18 decided in one
   merged formula over fully symbolic 64-bit digests and 32-bit values. Compiled natively (without __CPROVER__) it re-evaluates the
   same laws on the REAL functions for a counterexample's values. */
#include "bmc.h"
int k_eq_s(uint64_t, uint32_t, uint32_t, uint64_t, uint32_t, uint32_t); int k_lt_s(uint64_t, uint32_t, uint32_t, uint64_t, uint32_t, uint32_t); uint64_t k_hash_s(uint64_t, uint32_t, uint32_t);
int k_eq_e(uint64_t, uint64_t); int k_lt_e(uint64_t, uint64_t); uint64_t k_hash_e(uint64_t);
#define SAME(i, j) (v##i == v##j && t##i == t##j)
#define EQ(i, j) k_eq_s(d##i, v##i, t##i, d##j, v##j, t##j)
#define LT(i, j) k_lt_s(d##i, v##i, t##i, d##j, v##j, t##j)
void laws(void)
{
	IN64(da); IN64(db); IN64(dc); IN32(va); IN32(vb); IN32(vc); IN32(ta); IN32(tb); IN32(tc);
	ASSUME(ta <= 1 && tb <= 1 && tc <= 1);
	ASSUME(!SAME(a, b) || da == db); ASSUME(!SAME(a, c) || da == dc); ASSUME(!SAME(b, c) || db == dc);     /* the digest is a function of the value */
	LAW(EQ(a, a), "== reflexive");
	LAW(EQ(a, b) == EQ(b, a), "== symmetric");
	LAW(!(EQ(a, b) && EQ(b, c)) || EQ(a, c), "== transitive");
	LAW(!LT(a, a), "< irreflexive");
	LAW(!(LT(a, b) && LT(b, a)), "< asymmetric");
	LAW(!(LT(a, b) && LT(b, c)) || LT(a, c), "< transitive");
	LAW((!LT(a, b) && !LT(b, a)) == EQ(a, b), "incomparable <=> equal");
	LAW(!((!LT(a, b) && !LT(b, a)) && (!LT(b, c) && !LT(c, b))) || (!LT(a, c) && !LT(c, a)), "incomparability transitive");
	LAW(!EQ(a, b) || k_hash_s(da, va, ta) == k_hash_s(db, vb, tb), "equal ids hash equally");
	LAW(EQ(a, b) == SAME(a, b), "storage: equal exactly when the values are (colliding digests stay distinct)");
	LAW(k_eq_e(da, da), "no storage: reflexive");
	LAW(k_eq_e(da, db) == (da == db), "no storage: equal exactly when the digests are");
	LAW(!(k_lt_e(da, db) && k_lt_e(db, dc)) || k_lt_e(da, dc), "no storage: < transitive");
	LAW((!k_lt_e(da, db) && !k_lt_e(db, da)) == k_eq_e(da, db), "no storage: incomparable <=> equal");
	LAW(!k_eq_e(da, db) || k_hash_e(da) == k_hash_e(db), "no storage: equal ids hash equally");
#ifdef WITNESS
	LAW(0, "reachability witness (must FAIL)");
#endif
}
#ifndef __CPROVER__
int vf_argc; char ** vf_argv; int vf_failed;
static uint64_t lcg = 88172645463325252ull;
static uint64_t rnd(void) { lcg ^= lcg << 13; lcg ^= lcg >> 7; lcg ^= lcg << 17; return lcg; }
int main(int argc, char ** argv)
{
	vf_argc = argc; vf_argv = argv;
	if(argc > 1 && ! strcmp(argv[1], "--difftest")) {
		/* differential test: the gcc build of the generated C and the g++ build of the real functions must print the same digest */
		uint64_t h = 1469598103934665603ull;
		for(int i = 0; i < 20000; i++) {
			uint64_t a = rnd(), b = (i & 3) ? rnd() : a; uint32_t x = (uint32_t)rnd() & 7, y = (uint32_t)rnd() & 7, s = rnd() & 1, t = rnd() & 1;
			h = (h ^ (uint64_t)k_eq_s(a, x, s, b, y, t)) * 1099511628211ull; h = (h ^ (uint64_t)k_lt_s(a, x, s, b, y, t)) * 1099511628211ull; h = (h ^ k_hash_s(a, x, s)) * 1099511628211ull;
			h = (h ^ (uint64_t)k_eq_e(a, b)) * 1099511628211ull; h = (h ^ (uint64_t)k_lt_e(a, b)) * 1099511628211ull; h = (h ^ k_hash_e(a)) * 1099511628211ull;
		}
		printf("%llu\n", (unsigned long long)h); return 0;
	}
	laws();
	printf(vf_failed ? "LAWS-VIOLATED\n" : "LAWS-HOLD\n");
	return vf_failed ? 3 : 0;
}
#endif
