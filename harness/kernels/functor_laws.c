/* CBMC harness for the lowered conditionalFunctor / argumentAdapter kernels: for EVERY argument value, mask and comparand the wrapped listener runs
   exactly when the condition holds for the dispatched arguments, with those same arguments, the condition is evaluated exactly once; the adapted
   listener receives the same values converted to its own parameter types. */
#include "bmc.h"
uint32_t k_conditional(uint32_t a, uint32_t b, uint32_t mask, uint32_t want, uint32_t * ra, uint32_t * rb);
uint32_t k_adapter(int64_t a, uint32_t b, uint32_t * ra, uint32_t * rb);
void laws(void)
{
	IN32(a); IN32(b); IN32(mask); IN32(want); IN64(wide);
	uint32_t ra = 0, rb = 0;
	uint32_t r = k_conditional(a, b, mask, want, &ra, &rb);
	uint32_t called = r & 0xff, condCalls = r >> 8;
	LAW(condCalls == 1, "condition evaluated exactly once per dispatch");
	LAW(called == (((a & mask) == want) ? 1u : 0u), "wrapped listener runs exactly when the condition holds for the dispatched arguments");
	LAW(called == 0 || (ra == a && rb == b), "wrapped listener receives the dispatched arguments");
	uint32_t xa = 0, xb = 0;
	uint32_t c2 = k_adapter((int64_t)wide, b, &xa, &xb);
	LAW(c2 == 1, "adapted listener runs once");
	LAW(xa == (uint32_t)(int32_t)(int64_t)wide, "adapter: int64 converted to the listener's int32");
	LAW(xb == (uint32_t)(uint16_t)b, "adapter: uint32 converted to the listener's uint16");
#ifdef WITNESS
	LAW(0, "reachability witness (must FAIL)");
#endif
}
#ifndef __CPROVER__
int vf_argc; char ** vf_argv; int vf_failed;
static uint64_t lcg = 88172645463325252ull;
static uint64_t rnd(void) { lcg ^= lcg << 13; lcg ^= lcg >> 7; lcg ^= lcg << 17; return lcg; }
int main(int argc, char ** argv)
{
	vf_argc = argc; vf_argv = argv;
	if(argc > 1 && ! strcmp(argv[1], "--difftest")) {
		uint64_t h = 1469598103934665603ull;
		for(int i = 0; i < 20000; i++) {
			uint32_t a = (uint32_t)rnd(), b = (uint32_t)rnd(), m = (uint32_t)rnd() & 3, w = (uint32_t)rnd() & 3, ra = 0, rb = 0;
			h = (h ^ k_conditional(a, b, m, w, &ra, &rb)) * 1099511628211ull; h = (h ^ ra) * 1099511628211ull; h = (h ^ rb) * 1099511628211ull;
			h = (h ^ k_adapter((int64_t)rnd(), b, &ra, &rb)) * 1099511628211ull; h = (h ^ ra) * 1099511628211ull; h = (h ^ rb) * 1099511628211ull;
		}
		printf("%llu\n", (unsigned long long)h); return 0;
	}
	laws();
	printf(vf_failed ? "LAWS-VIOLATED\n" : "LAWS-HOLD\n");
	return vf_failed ? 3 : 0;
}
#endif
