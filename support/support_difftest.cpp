#include <string>
// differential test of the support TU against libstdc++.so: same operation sequences on std::map / std::list must agree
#include <map>
#include <list>
#include <cstdio>
#include <cstdlib>
#include <vector>
#include <unordered_map>
int main(int argc,char**argv){ unsigned seed = argc>1?atoi(argv[1]):1; srand(seed); unsigned long h=1469598103934665603ul;
  for(int round=0;round<200;round++){ std::map<int,int> m; std::list<int> l, l2;
    for(int i=0;i<60;i++){ int k=rand()%40; int op=rand()%4;
      if(op<2) m[k]=i; else if(op==2) m.erase(k); else { auto it=m.lower_bound(k); if(it!=m.end()) h=(h^it->first)*1099511628211ul; if(it!=m.begin()){--it; h=(h^it->first)*1099511628211ul;} }
      if(op==0) l.push_back(k); else if(op==1) l.push_front(k); else if(op==2 && !l.empty()) { l2.splice(l2.end(), l, l.begin()); } else { l.swap(l2); }
    }
    for(auto&p:m) h=(h^(p.first*31+p.second))*1099511628211ul; for(int x:l) h=(h^x)*1099511628211ul; for(int x:l2) h=(h^(x+7))*1099511628211ul; l.sort(); for(int x:l) h=(h^x)*1099511628211ul; }
  { std::unordered_map<int,int> m; for(int i=0;i<300;i++){ m[i*7]=i; h=h*31+m.bucket_count(); if(i%50==0) m.erase(i*7); } }
  { std::string s; for(int i=0;i<40;i++){ s.push_back((char)(rand()%251)); h=(h^std::hash<std::string>()(s))*1099511628211ul; } }   // std::_Hash_bytes, lengths 1..40
  printf("%lu\n",h); return 0; }
